"""C11 helpers: one *case* = (algorithm, model kind, seed, logging options, route, prior activity).

``run_case(case)`` executes the prior activity and then the seeded public call on a freshly built model and
returns an observation ``{"kind": "ok"|"refused"|"raise", "digest": ..., "values": ...}``.
``python -m lmc.c11_lib '<json list of cases>'`` runs cases in a NEW interpreter (used for the reference runs and for
the PYTHONHASHSEED comparison) and prints one JSON line ``C11RESULT <json>``.
"""

from __future__ import annotations

import copy

import contextlib
import hashlib
import io
import json
import os
import random
import shutil
import subprocess
import sys
import tempfile
import warnings
from pathlib import Path

SCRATCH = Path("/var/tmp/c11")

# ------------------------------------------------------------------------------------------
# alphabets

MODELS = {
    "logistic": {"kind": "logistic", "dim": 3, "ns": 2, "noise": "gaussian-diagonal"},
    "joint": {"kind": "joint", "dim": 3, "ns": 2, "noise": "gaussian-diagonal"},
}
COHORT = ["a", "b", "c", "d", "e"]
# other dimensions / numbers of sources, only used by the "plot_dims" part (the number of curves of the convergence plots,
# hence the page layout of the plot files, depends on them)
EXTRA_MODELS = {f"logistic_d{d}_s{ns}": {"kind": "logistic", "dim": d, "ns": ns, "noise": "gaussian-diagonal" if d > 1 else "gaussian-scalar"}
                for d in (1, 2, 3, 4) for ns in range(0, d)}

N_ITER = 6
# "fit_annealing": the Gibbs fit with simulated annealing switched on (2 plateaus over the first half of the iterations):
# the temperature schedule is part of what a run does, so it must not depend on the logging options either
FIT_SAMPLERS = {"fit_gibbs": "Gibbs", "fit_fastgibbs": "FastGibbs", "fit_mh": "Metropolis-Hastings", "fit_annealing": "Gibbs"}
FIT_EXTRA = {"fit_annealing": dict(annealing={"do_annealing": True, "initial_temperature": 4.0, "n_plateau": 2, "n_iter_frac": 0.5})}
PERSONALIZE = {"pers_scipy": "scipy_minimize", "pers_mode": "mode_posterior", "pers_mean": "mean_posterior"}
ALGOS = list(FIT_SAMPLERS) + list(PERSONALIZE) + ["simulate"]

LOG_KEYS = ("print_periodicity", "save_periodicity", "plot_periodicity", "plot_patient_periodicity", "plot_sourcewise",
            "nb_of_patients_to_plot")
PATH_MODES = ("absent", "fresh", "existing_overwrite", "existing_empty", "existing_nonempty")
# + "relative_chdir" (settings route only): a relative folder name, and another working directory when the run starts

PRIORS = ("nothing", "rng1", "rng7", "fit_other", "personalize_other", "dtype_flip", "same_case", "same_other_seed",
          "same_settings", "custom_options")

VISITS = {
    "patient_number": 4,
    "visit_type": "random",
    "first_visit_mean": 0.0,
    "first_visit_std": 0.4,
    "time_follow_up_mean": 3.0,
    "time_follow_up_std": 0.5,
    "distance_visit_mean": 1.0,
    "distance_visit_std": 0.25,
    "min_spacing_between_visits": 0.01,
}


def algo_site(algo):
    if algo in FIT_SAMPLERS:
        return "fit(mcmc_saem)"
    if algo in PERSONALIZE:
        return f"personalize({PERSONALIZE[algo]})"
    return "simulate"


# ------------------------------------------------------------------------------------------
# digests (byte level)

def _tensor_bytes(t):
    import numpy as np
    import torch

    if isinstance(t, torch.Tensor):
        a = t.detach().cpu().contiguous().numpy()
        return str(a.dtype).encode() + str(a.shape).encode() + a.tobytes()
    if isinstance(t, np.ndarray):
        a = np.ascontiguousarray(t)
        if a.dtype == object:
            return b"obj" + str(a.shape).encode() + repr(a.tolist()).encode()
        return str(a.dtype).encode() + str(a.shape).encode() + a.tobytes()
    if isinstance(t, float):
        return b"float" + np.float64(t).tobytes()
    return repr(t).encode()


def _frame_parts(df):
    """(label, bytes-able) parts of a table: index, columns, every column's values (byte level)."""
    import numpy as np

    parts = [("index", repr([list(map(repr, ix)) if isinstance(ix, tuple) else repr(ix) for ix in df.index.tolist()])),
             ("columns", repr([str(c) for c in df.columns]))]
    for c in df.columns:
        col = df[c]
        try:
            arr = np.asarray(col.to_numpy(), dtype=col.dtype if col.dtype != object else object)
        except Exception:
            arr = np.asarray(col.tolist(), dtype=object)
        if arr.dtype == object:
            vals = []
            for v in arr.tolist():
                if hasattr(v, "item"):
                    v = v.item()
                vals.append(float(v).hex() if isinstance(v, float) else repr(v))
            parts.append((f"col:{c}", repr(vals)))
        else:
            parts.append((f"col:{c}", arr))
    return parts


def digest_parts(parts):
    h = hashlib.blake2b(digest_size=8)
    for label, v in parts:
        h.update(str(label).encode())
        h.update(b"=")
        h.update(_tensor_bytes(v) if not isinstance(v, str) else v.encode())
        h.update(b";")
    return h.hexdigest()


def _readable(v):
    import numpy as np
    import torch

    if isinstance(v, torch.Tensor):
        v = v.detach().cpu().numpy()
    if isinstance(v, np.ndarray):
        if v.dtype == object:
            return repr(v.tolist())[:400]
        flat = v.reshape(-1)
        return {"shape": list(v.shape), "dtype": str(v.dtype),
                "hex": [float(x).hex() if v.dtype.kind == "f" else repr(x) for x in flat[:12].tolist()]}
    if isinstance(v, float):
        return float(v).hex()
    return str(v)[:400]


# ------------------------------------------------------------------------------------------
# building blocks

@contextlib.contextmanager
def quiet():
    with warnings.catch_warnings():
        warnings.simplefilter("ignore")
        with contextlib.redirect_stdout(io.StringIO()), contextlib.redirect_stderr(io.StringIO()):
            yield


def ensure_env():
    os.environ.setdefault("MPLBACKEND", "Agg")
    SCRATCH.mkdir(parents=True, exist_ok=True)
    import matplotlib

    if matplotlib.get_backend().lower() != "agg":
        matplotlib.use("Agg", force=True)
    import torch

    torch.set_num_threads(1)


# two more individuals for the 7-individual cohort (more individuals than the default nb_of_patients_to_plot = 5)
EXTRA_INDIVIDUALS = {
    "f": [(64.0, [0.20, 0.15, 0.25, 0.2]), (68.0, [0.32, 0.28, 0.33, 0.3]), (71.5, [0.45, 0.35, 0.41, 0.4])],
    "g": [(73.0, [0.50, 0.42, 0.55, 0.5]), (77.0, [0.62, 0.58, 0.66, 0.6])],
}
EXTRA_EVENTS = {"f": (74.0, 0), "g": (79.5, 1), "h": (70.0, 1), "i": (88.0, 0), "j": (81.0, 1)}
EXTRA_INDIVIDUALS.update({
    "h": [(59.0, [0.10, 0.12, 0.20, 0.1]), (63.5, [0.22, 0.20, 0.27, 0.2]), (67.0, [0.31, 0.33, 0.36, 0.3])],
    "i": [(78.0, [0.66, 0.52, 0.70, 0.6]), (82.5, [0.79, 0.68, 0.81, 0.7])],
    "j": [(69.0, [0.35, 0.30, 0.40, 0.3]), (72.0, [0.44, 0.41, 0.52, 0.4]), (76.5, [0.58, 0.55, 0.63, 0.5])],
})


def make_model_and_data(model_name, variant=0, cohort=5):
    from . import models as M
    from leaspy.io.data import Data, Dataset

    spec = dict(MODELS[model_name] if model_name in MODELS else EXTRA_MODELS[model_name], variant=variant)
    if cohort == 5:
        return M.build_model(spec), M.cohort_dataset(COHORT, spec)
    assert cohort in (7, 10)
    individuals = dict(M.INDIVIDUALS, **EXTRA_INDIVIDUALS)
    events = dict(M.EVENTS, **EXTRA_EVENTS)
    joint = spec["kind"] == "joint"
    more = ["f", "g"] if cohort == 7 else ["f", "g", "h", "i", "j"]
    rows = [(i, age, list(vals[: spec["dim"]])) for i in COHORT + more for age, vals in individuals[i]]
    df = M.visits_frame(rows, [f"Y{k}" for k in range(spec["dim"])], events if joint else None)
    data = Data.from_dataframe(df, "joint") if joint else Data.from_dataframe(df)
    return M.build_model(spec), Dataset(data)


# non-default nested options for the history 'custom_options' (same algorithm run first with them)
CUSTOM_OPTIONS = {
    "fit": [dict(sampler_pop_params={"acceptation_history_length": 2, "adaptive_std_factor": 0.5,
                                     "mean_acceptation_rate_target_bounds": [0.05, 0.1], "random_order_dimension": False},
                 sampler_ind_params={"acceptation_history_length": 2, "adaptive_std_factor": 0.5,
                                     "mean_acceptation_rate_target_bounds": [0.05, 0.1]},
                 annealing={"do_annealing": True, "initial_temperature": 5.0, "n_plateau": 2, "n_iter_frac": 0.5},
                 random_order_variables=False)],
    "mcmc_personalize": [dict(sampler_ind_params={"acceptation_history_length": 2, "adaptive_std_factor": 0.5,
                                                  "mean_acceptation_rate_target_bounds": [0.05, 0.1]},
                              annealing={"do_annealing": True, "initial_temperature": 5.0, "n_plateau": 2, "n_iter_frac": 0.5})],
    "pers_scipy": [dict(use_jacobian=False, custom_scipy_minimize_params={"options": {"xtol": 1e-1, "ftol": 1e-1, "maxiter": 1}}),
                   dict(use_jacobian=False, custom_scipy_minimize_params={"method": "Powell", "options": {"xtol": 1e-1, "maxiter": 2}}),
                   dict(use_jacobian=True, custom_scipy_minimize_params={"method": "BFGS", "options": {"gtol": 1e-1, "maxiter": 1}}),
                   dict(use_jacobian=True, custom_scipy_minimize_params={"options": {"gtol": 1e-1, "maxiter": 1}})],
    "simulate": [dict(visit_parameters=dict(VISITS, patient_number=2, distance_visit_mean=0.5, min_spacing_between_visits=0.1),
                      prefix="Other_")],
}


def custom_options_for(algo):
    if algo in FIT_SAMPLERS:
        return CUSTOM_OPTIONS["fit"]
    if algo in ("pers_mode", "pers_mean"):
        return CUSTOM_OPTIONS["mcmc_personalize"]
    return CUSTOM_OPTIONS[algo]


def algo_kwargs(algo, seed):
    # adaptation window of 4 iterations so that the samplers' adaptive std is exercised within the 6 iterations;
    # fit: 3 memory-less iterations then 3 with memory (both branches of the maximisation step)
    if algo in FIT_SAMPLERS:
        return "mcmc_saem", dict(seed=seed, n_iter=N_ITER, progress_bar=False, sampler_pop=FIT_SAMPLERS[algo],
                                 n_burn_in_iter_frac=0.5,
                                 sampler_pop_params={"acceptation_history_length": 4},
                                 sampler_ind_params={"acceptation_history_length": 4},
                                 **copy.deepcopy(FIT_EXTRA.get(algo, {})))
    if algo == "pers_scipy":
        return "scipy_minimize", dict(seed=seed, progress_bar=False)
    if algo in PERSONALIZE:
        return PERSONALIZE[algo], dict(seed=seed, n_iter=N_ITER, progress_bar=False,
                                       sampler_ind_params={"acceptation_history_length": 4})
    if algo == "simulate":
        return "simulate", dict(seed=seed, features=["Y0", "Y1", "Y2"], visit_parameters=dict(VISITS))
    raise ValueError(algo)


def log_kwargs(log, workdir):
    """Public logging keyword arguments of a logging configuration (None = no logging option given at all).

    Returns (kwargs, directory that may receive files or None)."""
    if log is None:
        return {}, None
    kw = {k: log[k] for k in LOG_KEYS if k in log and (log[k] is not None and log[k] is not False)}
    mode = log.get("path", "absent")
    target = None
    if mode == "absent":
        if log.get("save_periodicity"):
            target = Path(workdir) / "_outputs"  # documented default: ./_outputs relative to the working directory
    else:
        target = Path(workdir) / "logs"
        if mode in ("fresh", "relative_chdir"):
            pass
        elif mode in ("existing_overwrite", "existing_nonempty"):
            (target / "plots").mkdir(parents=True)
            (target / "plots" / "old.txt").write_text("left by an earlier run")
            (target / "parameter_convergence").mkdir()
            (target / "parameter_convergence" / "g.csv").write_text("0,1.0\n")
            if mode == "existing_overwrite":
                kw["overwrite_logs_folder"] = True
        elif mode == "existing_empty":
            target.mkdir(parents=True)
        else:
            raise ValueError(mode)
        # "relative_chdir": the folder is named relatively to the working directory in force when the settings are built; the
        # working directory is another one by the time the algorithm runs (see `execute`)
        kw["path"] = "logs" if mode == "relative_chdir" else str(target)
    return kw, target


def logging_is_active(log):
    return log is not None and (
        any(log.get(k) for k in LOG_KEYS) or log.get("path", "absent") != "absent"
    )


def observe_result(algo, model, res):
    """Byte-level parts of what the property observes."""
    if algo in FIT_SAMPLERS:
        parts = [(f"parameters[{k}]", v) for k, v in sorted(model.parameters.items())]
        for k, v in sorted((model.fit_metrics or {}).items()):
            parts.append((f"fit_metrics[{k}]", float(v)))
        return parts
    if algo in PERSONALIZE:
        return _frame_parts(res.to_dataframe())
    parts = [("data:" + l, v) for l, v in _frame_parts(res.data.to_dataframe())]
    parts += [("ip:" + l, v) for l, v in _frame_parts(res.individual_parameters)]
    parts.append(("noise_std", res.noise_std))
    return parts


def files_written(target):
    if target is None or not Path(target).exists():
        return []
    return sorted(str(p.relative_to(target)) for p in Path(target).rglob("*") if p.is_file())


def _new_workdir():
    for attempt in range(5):  # another process may remove the (empty) scratch root between the two calls
        try:
            SCRATCH.mkdir(parents=True, exist_ok=True)
            return Path(tempfile.mkdtemp(prefix="case_", dir=str(SCRATCH)))
        except FileNotFoundError:
            if attempt == 4:
                raise


def _merge(base, extra):
    out = dict(base)
    for k, v in (extra or {}).items():
        out[k] = _merge(out[k], v) if isinstance(v, dict) and isinstance(out.get(k), dict) else v
    return out


def execute(algo, model_name, seed, log=None, route="settings", variant=0, shared=None, cohort=5, extra=None):
    """Build a fresh model + dataset, run the seeded public call, return the observation.

    ``shared``: dict carrying one AlgorithmSettings object from one call to the next (history 'same_settings')."""
    from leaspy.algo import AlgorithmSettings
    from leaspy.exceptions import LeaspyAlgoInputError

    workdir = _new_workdir()
    cwd = os.getcwd()
    try:
        model, ds = make_model_and_data(model_name, variant, cohort)
        name, kw = algo_kwargs(algo, seed)
        kw = _merge(kw, extra)
        lkw, target = log_kwargs(log, workdir)
        os.chdir(workdir)
        obs = {"kind": None, "stage": None, "files": []}
        with quiet():
            # ---- settings time: refusals must be LeaspyAlgoInputError and must happen here
            stage = "settings"
            try:
                if route == "settings":
                    if shared is not None and "settings" in shared:
                        settings = shared["settings"]
                    else:
                        settings = AlgorithmSettings(name, **kw)
                        if log is not None:
                            settings.set_logs(**lkw)
                        if shared is not None:
                            shared["settings"] = settings
                    call_kw = dict(algorithm_settings=settings)
                elif route == "file":
                    # the settings come from a JSON file written by AlgorithmSettings.save (logging options are not stored there)
                    spath = str(Path(workdir) / "settings.json")
                    AlgorithmSettings(name, **kw).save(spath)
                    call_kw = dict(algorithm_settings_path=spath)
                else:  # keyword route of the public fit/personalize/simulate (settings are built inside the call)
                    call_kw = dict(algorithm=name, **kw, **lkw)
                if log is not None and log.get("path") == "relative_chdir":
                    elsewhere = Path(workdir) / "elsewhere"
                    elsewhere.mkdir()
                    os.chdir(elsewhere)
            except LeaspyAlgoInputError as e:
                return {"kind": "refused", "stage": stage, "exc": "LeaspyAlgoInputError", "msg": str(e)[:200], "files": []}
            except Exception as e:
                return {"kind": "raise", "stage": stage, "exc": type(e).__name__, "msg": str(e)[:300], "files": []}
            # ---- run
            stage = "run"
            try:
                if algo in FIT_SAMPLERS:
                    res = model.fit(ds, **call_kw)
                elif algo in PERSONALIZE:
                    res = model.personalize(ds, **call_kw)
                else:
                    res = model.simulate(**call_kw)
            except LeaspyAlgoInputError as e:
                import traceback

                # keyword route: the settings are built inside the call (BaseModel._get_algorithm), before anything runs
                names = [f.name for f in traceback.extract_tb(e.__traceback__)]
                if "_get_algorithm" in names and "run" not in names:
                    stage = "settings"
                return {"kind": "refused", "stage": stage, "exc": "LeaspyAlgoInputError", "msg": str(e)[:200],
                        "files": files_written(target)}
            except Exception as e:
                import traceback

                tb = traceback.extract_tb(e.__traceback__)
                frames = [f"{Path(f.filename).name}:{f.name}" for f in tb if "/leaspy/" in f.filename]
                return {"kind": "raise", "stage": stage, "exc": type(e).__name__, "msg": str(e)[:300],
                        "where": frames[-1] if frames else "?", "frames": frames, "files": files_written(target)}
            parts = observe_result(algo, model, res)
        import matplotlib.pyplot as plt

        n_open = len(plt.get_fignums())
        plt.close("all")
        return {"kind": "ok", "stage": "done", "digest": digest_parts(parts),
                "values": {l: _readable(v) for l, v in parts}, "files": files_written(target), "open_figures": n_open}
    finally:
        os.chdir(cwd)
        shutil.rmtree(workdir, ignore_errors=True)


# ------------------------------------------------------------------------------------------
# prior activity in the same interpreter

def do_prior(prior, case):
    import numpy as np
    import torch

    if prior == "nothing":
        return None
    if prior in ("rng1", "rng7"):
        n = 1 if prior == "rng1" else 7
        for _ in range(n):
            random.random()
        np.random.rand(n)
        torch.randn(n)
        torch.rand(n)
        lst = list(range(5))
        random.shuffle(lst)
        return None
    if prior == "fit_other":
        # another model kind, other data, other seed, console + file logging on
        other = "joint" if case["model"] == "logistic" else "logistic"
        return execute("fit_gibbs", other, 3, {"print_periodicity": 2, "save_periodicity": 3, "path": "fresh"}, variant=1)
    if prior == "personalize_other":
        other = "joint" if case["model"] == "logistic" else "logistic"
        return execute("pers_mean", other, 5, None, variant=1)
    if prior == "dtype_flip":
        torch.set_default_dtype(torch.float64)
        try:
            x = torch.tensor([1.5, 2.5]) * torch.randn(2)
            assert x.dtype == torch.float64
        finally:
            torch.set_default_dtype(torch.float32)
        return None
    if prior == "same_case":
        return execute(case["algo"], case["model"], case["seed"], case.get("log"), case.get("route", "settings"),
                       cohort=case.get("cohort", 5))
    if prior == "same_other_seed":
        return execute(case["algo"], case["model"], case["seed"] + 11, None, cohort=case.get("cohort", 5))
    if prior == "custom_options":
        # the same algorithm run first with NON-default nested options (samplers / annealing / solver options / visit design)
        pre = None
        for extra in custom_options_for(case["algo"]):
            pre = execute(case["algo"], case["model"], case["seed"] + 1, None, "settings", variant=1, extra=extra)
            if pre.get("kind") == "raise" and pre.get("exc") != "LeaspyConvergenceError":
                return dict(pre, custom_failed=True)
        return pre
    if prior == "same_settings":
        # one AlgorithmSettings object used for two runs (first on the other variant of the model's parameters)
        shared = {}
        pre = execute(case["algo"], case["model"], case["seed"], None, "settings", variant=1, shared=shared)
        return dict(pre, shared=shared)
    raise ValueError(prior)


def run_case(case):
    ensure_env()
    pre = do_prior(case.get("prior", "nothing"), case)
    shared = pre.pop("shared", None) if isinstance(pre, dict) else None
    obs = execute(case["algo"], case["model"], case["seed"], case.get("log"), case.get("route", "settings"), shared=shared,
                  cohort=case.get("cohort", 5))
    if isinstance(pre, dict) and pre.get("kind") == "raise" and (case.get("prior") in ("fit_other", "personalize_other")
                                                                 or pre.get("custom_failed")):
        obs["prior_failed"] = {k: pre[k] for k in ("exc", "msg", "where") if k in pre}
    return obs


# ------------------------------------------------------------------------------------------
# new interpreter

def _spawn(cases, hashseed):
    env = dict(os.environ, PYTHONHASHSEED=str(hashseed), MPLBACKEND="Agg", OMP_NUM_THREADS="1", MKL_NUM_THREADS="1")
    return subprocess.Popen(
        [sys.executable, "-m", "lmc.c11_lib", json.dumps(cases)],
        cwd=str(Path(__file__).resolve().parent.parent), env=env, stdout=subprocess.PIPE, stderr=subprocess.PIPE, text=True,
    )


def _collect(proc, timeout):
    try:
        out, err = proc.communicate(timeout=timeout)
    except subprocess.TimeoutExpired:
        proc.kill()
        raise
    for line in out.splitlines():
        if line.startswith("C11RESULT "):
            return json.loads(line[len("C11RESULT "):])
    raise RuntimeError(f"C11 sub-interpreter failed (rc={proc.returncode}):\n{out[-1500:]}\n{err[-3000:]}")


def run_in_new_interpreter(cases, hashseed="0", timeout=900):
    """Run the cases one after the other in ONE new interpreter started with the given PYTHONHASHSEED."""
    return _collect(_spawn(cases, hashseed), timeout)


def run_in_new_interpreters(jobs, timeout=900, concurrency=3):
    """jobs: list of (cases, hashseed); every job gets its own new interpreter (at most `concurrency` at a time)."""
    results = [None] * len(jobs)
    for start in range(0, len(jobs), concurrency):
        procs = [(i, _spawn(*jobs[i])) for i in range(start, min(start + concurrency, len(jobs)))]
        for i, p in procs:
            results[i] = _collect(p, timeout)
    return results


def _main():
    import logging

    warnings.filterwarnings("ignore")
    logging.disable(logging.CRITICAL)
    cases = json.loads(sys.argv[1])
    out = [run_case(c) for c in cases]
    sys.stdout = sys.__stdout__
    print("C11RESULT " + json.dumps(out))


if __name__ == "__main__":
    _main()

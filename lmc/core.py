"""Common machinery: accumulators, sharded runner, evidence, known findings, replay files.

A property module (``lmc/props/cXX.py``) exposes

    ID, LEVEL ("model_checking" | "exploration"), RULE (str), ASSUMPTIONS (list[str])
    shards(tier, seed)  -> list of JSON-able shard descriptors (ordered simplest first)
    run_shard(shard)    -> Acc.to_dict()   (executed in a worker process)
    replay(case)        -> list of violation dicts for that single case (empty = holds)

Everything a shard explores is enumerated (never sampled).  A shard that stops early must call
``acc.cap(...)`` so that the run is not reported as exhaustive.
"""

from __future__ import annotations

import contextlib
import hashlib
import importlib
import json
import multiprocessing as mp
import os
import signal
import sys
import time
import traceback
from collections import Counter
from pathlib import Path

VERIF = Path(__file__).resolve().parent.parent
EVIDENCE_DIR = Path(os.environ.get("LMC_EVIDENCE_DIR") or VERIF / "evidence")
REPLAY_DIR = Path(os.environ.get("LMC_REPLAY_DIR") or VERIF / "replays")
KNOWN_FINDINGS = VERIF / "known_findings.json"
MAX_SAMPLES = 4
MAX_VIOLATION_CASES_PER_SIGNATURE = 1


def jsonable(x):
    """Best-effort conversion of a case description to JSON-able data."""
    import numpy as np

    try:
        import torch
    except Exception:  # pragma: no cover
        torch = None
    if isinstance(x, dict):
        return {str(k): jsonable(v) for k, v in x.items()}
    if isinstance(x, (list, tuple, set, frozenset)):
        seq = sorted(x, key=repr) if isinstance(x, (set, frozenset)) else x
        return [jsonable(v) for v in seq]
    if torch is not None and isinstance(x, torch.Tensor):
        return jsonable(x.tolist())
    if isinstance(x, np.ndarray):
        return jsonable(x.tolist())
    if isinstance(x, (np.floating,)):
        x = float(x)
    if isinstance(x, (np.integer,)):
        return int(x)
    if isinstance(x, (np.bool_,)):
        return bool(x)
    if isinstance(x, float):
        if x != x:
            return "nan"
        if x in (float("inf"), float("-inf")):
            return "inf" if x > 0 else "-inf"
        return x
    if isinstance(x, (str, int, bool)) or x is None:
        return x
    return repr(x)


def digest(obj) -> str:
    return hashlib.blake2b(
        json.dumps(jsonable(obj), sort_keys=True).encode(), digest_size=8
    ).hexdigest()


class Acc:
    """Per-shard accumulator of coverage counts and violations."""

    def __init__(self):
        self.evaluations = 0
        self.states = 0
        self.transitions = 0
        self.nontrivial = set()
        self.outcomes = Counter()
        self.samples = []
        self.violations = {}  # signature -> dict(count, first)
        self.caps = []
        self.extra = Counter()

    # ---- counting
    def evaluation(self, n=1):
        self.evaluations += n

    def state(self, n=1):
        self.states += n

    def transition(self, n=1):
        self.transitions += n

    def count(self, key, n=1):
        self.extra[key] += n

    def nontriv(self, key):
        """Register one distinct non-trivial case (key = anything JSON-able / hashable)."""
        self.nontrivial.add(key if isinstance(key, str) and len(key) == 16 else digest(key))

    def outcome(self, label):
        self.outcomes[str(label)] += 1

    def sample(self, case):
        if len(self.samples) < MAX_SAMPLES:
            self.samples.append(jsonable(case))

    def cap(self, what):
        self.caps.append(str(what))

    # ---- violations
    def violation(self, signature, message, case, expected=None, observed=None):
        signature = str(signature)
        v = self.violations.get(signature)
        if v is None:
            self.violations[signature] = {
                "signature": signature,
                "count": 1,
                "message": str(message)[:2000],
                "case": jsonable(case),
                "expected": jsonable(expected),
                "observed": jsonable(observed),
            }
        else:
            v["count"] += 1

    def to_dict(self):
        return {
            "evaluations": self.evaluations,
            "states": self.states,
            "transitions": self.transitions,
            "nontrivial": sorted(self.nontrivial),
            "outcomes": dict(self.outcomes),
            "samples": self.samples,
            "violations": list(self.violations.values()),
            "caps": self.caps,
            "extra": dict(self.extra),
        }


class CaseTimeout(Exception):
    pass


@contextlib.contextmanager
def time_limit(seconds: float):
    """Per-case alarm (worker processes run cases in their main thread).

    The budget is CPU time of the process (ITIMER_PROF), not wall-clock time: a verdict such as "does not run to
    completion" must not depend on how loaded the machine is (the checks may run next to each other on the same cores).
    A non-terminating computation burns CPU, so it is still stopped after `seconds` of its own work; a wall-clock alarm
    30 times longer only backs this up against a case that blocks without computing."""

    def _handler(signum, frame):
        raise CaseTimeout(f"case exceeded {seconds} s of CPU time" if signum == signal.SIGPROF else f"case blocked for {30 * seconds} s")

    old_prof = signal.signal(signal.SIGPROF, _handler)
    old_alrm = signal.signal(signal.SIGALRM, _handler)
    signal.setitimer(signal.ITIMER_PROF, seconds)
    signal.setitimer(signal.ITIMER_REAL, 30 * seconds)
    try:
        yield
    finally:
        signal.setitimer(signal.ITIMER_PROF, 0)
        signal.setitimer(signal.ITIMER_REAL, 0)
        signal.signal(signal.SIGPROF, old_prof)
        signal.signal(signal.SIGALRM, old_alrm)


# --------------------------------------------------------------------------------------
# worker side


def _worker_init(quiet: bool):
    os.environ.setdefault("PYTHONHASHSEED", "0")
    os.environ.setdefault("OMP_NUM_THREADS", "1")
    os.environ.setdefault("MKL_NUM_THREADS", "1")
    import warnings

    warnings.filterwarnings("ignore")
    import logging

    logging.disable(logging.CRITICAL)
    try:
        import torch

        torch.set_num_threads(1)
    except Exception:
        pass
    if quiet:
        devnull = open(os.devnull, "w")
        sys.stdout = devnull
        sys.stderr = devnull


def _worker_run(args):
    modname, idx, shard = args
    t0 = time.time()
    try:
        mod = importlib.import_module(modname)
        res = mod.run_shard(shard)
        res["error"] = None
    except BaseException as e:  # harness error, reported as such (exit 2), never a VIOLATION
        res = Acc().to_dict()
        res["error"] = "".join(traceback.format_exception(type(e), e, e.__traceback__))[-4000:]
    res["shard_index"] = idx
    res["wall_s"] = time.time() - t0
    return res


# --------------------------------------------------------------------------------------
# parent side


def load_known_findings():
    if not KNOWN_FINDINGS.exists():
        return []
    return json.loads(KNOWN_FINDINGS.read_text())["findings"]


def repo_import_check():
    import leaspy

    p = Path(leaspy.__file__).resolve()
    if not str(p).startswith("/repo/src/") and not os.environ.get("LMC_ALLOW_OTHER_REPO"):
        raise RuntimeError(f"leaspy imported from {p}, expected /repo/src (dev-mode install)")
    return str(p)


def run_property(prop_id: str, tier: str, seed: int, jobs: int, budget_s: float | None):
    t_start = time.time()
    modname = f"lmc.props.{prop_id.lower()}"
    mod = importlib.import_module(modname)
    leaspy_path = repo_import_check()
    if hasattr(mod, "self_check"):
        mod.self_check()
    shards = list(mod.shards(tier, seed))
    caps = []
    flt = os.environ.get("LMC_SHARD_FILTER")
    if flt:
        # development aid only (never used by a registered command): run the shards whose JSON contains every given
        # fragment; the run is reported as capped, never as exhaustive
        frags = [f for f in flt.split("&&") if f]
        kept = [s for s in shards if all(f in json.dumps(s, sort_keys=True) for f in frags)]
        caps.append(f"LMC_SHARD_FILTER={flt!r}: {len(kept)} of {len(shards)} shards run")
        shards = kept
    n_shards = len(shards)
    jobs = max(1, min(jobs, n_shards))
    results = [None] * n_shards
    ctx = mp.get_context("spawn")
    work = [(modname, i, s) for i, s in enumerate(shards)]
    if jobs == 1 and os.environ.get("LMC_INPROCESS"):
        _worker_init(False)
        for w in work:
            results[w[1]] = _worker_run(w)
    else:
        with ctx.Pool(jobs, initializer=_worker_init, initargs=(True,), maxtasksperchild=None) as pool:
            it = pool.imap_unordered(_worker_run, work, chunksize=1)
            while True:
                try:
                    timeout = None
                    if budget_s is not None:
                        timeout = max(1.0, t_start + budget_s - time.time())
                    r = it.next(timeout)
                except StopIteration:
                    break
                except mp.TimeoutError:
                    caps.append(f"time budget {budget_s}s reached: {sum(x is None for x in results)} of {n_shards} shards unfinished")
                    pool.terminate()
                    break
                results[r["shard_index"]] = r

    # ---- merge in shard order
    tot = dict(evaluations=0, states=0, transitions=0)
    nontrivial = set()
    outcomes = Counter()
    extra = Counter()
    samples = []
    errors = []
    violations = {}
    for r in results:
        if r is None:
            continue
        if r["error"]:
            errors.append((r["shard_index"], r["error"]))
        for k in tot:
            tot[k] += r[k]
        nontrivial.update(r["nontrivial"])
        outcomes.update(r["outcomes"])
        extra.update(r["extra"])
        caps.extend(r["caps"])
        for s in r["samples"]:
            if len(samples) < MAX_SAMPLES:
                samples.append(s)
        for v in r["violations"]:
            cur = violations.get(v["signature"])
            if cur is None:
                violations[v["signature"]] = dict(v)
            else:
                cur["count"] += v["count"]

    # ---- known findings
    known = {}
    for f in load_known_findings():
        if f["property"] == prop_id and f.get("status") == "known":
            # one finding may surface under several exact signatures (listed explicitly, never patterns)
            for sig in [f["signature"]] + list(f.get("also_seen_as", [])):
                known[sig] = f
    new_violations, known_seen = [], []
    for sig, v in violations.items():
        (known_seen if sig in known else new_violations).append(v)

    lines = []
    REPLAY_DIR.joinpath(prop_id).mkdir(parents=True, exist_ok=True)
    for v in known_seen:
        lines.append(
            f"KNOWN-FINDING: property={prop_id} {v['signature']} :: {known[v['signature']].get('description', '')[:160]} (x{v['count']})"
        )
    for v in new_violations:
        path = REPLAY_DIR / prop_id / f"{digest(v['signature'])}.json"
        path.write_text(
            json.dumps(
                {
                    "property": prop_id,
                    "signature": v["signature"],
                    "message": v["message"],
                    "case": v["case"],
                    "expected": v["expected"],
                    "observed": v["observed"],
                    "count_in_run": v["count"],
                    "tier": tier,
                    "seed": seed,
                },
                indent=1,
            )
        )
        lines.append(f"VIOLATION property={prop_id} replay={path}")
        lines.append(f"  signature: {v['signature']}")
        lines.append(f"  message:   {v['message'][:600]}")

    exhaustive = not caps and not errors and all(r is not None for r in results)
    wall = time.time() - t_start
    level = mod.LEVEL
    states = tot["states"]
    transitions = tot["transitions"]
    coverage = {
        "evaluations": tot["evaluations"],
        "distinct_nontrivial": len(nontrivial),
        "rule": mod.RULE,
        "samples": samples,
        "states": states,
        "transitions": transitions,
        "traces_validated_against_impl": transitions if level == "model_checking" else 0,
        "exhaustive": exhaustive,
        "caps_hit": caps,
        "shards": n_shards,
        "distinct_outcomes": len(outcomes),
        "outcomes": dict(outcomes.most_common(40)),
        "counters": dict(extra),
        "bounds": getattr(mod, "bounds", lambda t: {})(tier),
        "known_findings_seen": [v["signature"] for v in known_seen],
        "violation_signatures": [v["signature"] for v in new_violations],
        "leaspy_path": leaspy_path,
    }
    evidence = {
        "property_id": prop_id,
        "tier": tier,
        "seed": seed,
        "level": level,
        "coverage": coverage,
        "assumptions": list(mod.ASSUMPTIONS),
        "wall_s": round(wall, 2),
        "violations": len(new_violations),
    }
    EVIDENCE_DIR.mkdir(parents=True, exist_ok=True)
    (EVIDENCE_DIR / f"{prop_id}.json").write_text(json.dumps(evidence, indent=1))

    print(
        f"[{prop_id}] tier={tier} seed={seed} shards={n_shards} jobs={jobs} evaluations={tot['evaluations']} "
        f"states={states} transitions={transitions} distinct_nontrivial={len(nontrivial)} "
        f"distinct_outcomes={len(outcomes)} exhaustive={exhaustive} wall={wall:.1f}s"
    )
    for k, v in sorted(extra.items()):
        print(f"  counter {k} = {v}")
    for c in caps:
        print(f"  CAP: {c}")
    for line in lines:
        print(line)
    if errors:
        for idx, e in errors[:5]:
            print(f"HARNESS-ERROR shard {idx} ({json.dumps(shards[idx])[:200]}):\n{e}", file=sys.stderr)
        # a violation found by the shards that did finish stays a violation (exit 1, VIOLATION lines above); only a run
        # without any violation is reported as a pure harness error
        return 1 if new_violations else 2
    # vacuity self-check: an exploration in which nothing differed decides nothing
    if tot["evaluations"] > 0 and (len(nontrivial) < 2 or len(outcomes) < 2) and not new_violations:
        print(
            f"HARNESS-ERROR vacuous exploration: distinct_nontrivial={len(nontrivial)} outcomes={len(outcomes)}",
            file=sys.stderr,
        )
        return 2
    if tot["evaluations"] == 0:
        print("HARNESS-ERROR nothing explored", file=sys.stderr)
        return 2
    return 1 if new_violations else 0


def replay_file(path: str) -> int:
    rec = json.loads(Path(path).read_text())
    prop_id = rec["property"]
    mod = importlib.import_module(f"lmc.props.{prop_id.lower()}")
    _worker_init(False)
    repo_import_check()
    vs = mod.replay(rec["case"])
    if not vs:
        print(f"[{prop_id}] replay {path}: property holds on this case")
        return 0
    for v in vs:
        print(f"VIOLATION property={prop_id} replay={path}")
        print(f"  signature: {v['signature']}")
        print(f"  message:   {v['message'][:1000]}")
    return 1

"""E-HIST engine for ``leaspy.variables.state.State``: explicit-state BFS over operation histories
on the *real* State object, with a boring reference model of the independent values.

Used by C01 (every read equals the from-scratch evaluation) and C02 (rejections leave no trace).

Operations (JSON-able lists):
  ["set", v, x]                      x = index in the value alphabet of v, or None
  ["put", v, k, idx|None, acc]       k = index in the put-value alphabet; idx = coordinate or None (=())
  ["read", v]
  ["precompute"]
  ["revert"]                         full
  ["revert", [0,1,...]]              per-individual (1 = revert that individual); ["revert", mask, "uint8" | "int64"]: 0/1 mask of an integer dtype
  ["clone", disable_auto_fork, keep_last_fork]      exploration continues on the clone
  ["mode", None|"REF"|"COPY"]
  ["ctxset", mode, v, x]             `with state.auto_fork(mode): state[v] = x`
"""

from __future__ import annotations

import copy

import torch

import leaspy.models  # noqa: F401
from leaspy.exceptions import LeaspyInputError
from leaspy.utils.weighted_tensor import WeightedTensor
from leaspy.variables.state import State, StateForkType

from .oracle import brief, same_value, tdigest

MODES = {None: None, "REF": StateForkType.REF, "COPY": StateForkType.COPY}
MODE_NAMES = {None: None, StateForkType.REF: "REF", StateForkType.COPY: "COPY"}


class Universe:
    """A DAG + the alphabets of the exploration.

    settable: {name: [value0, value1, ...]}   (tensors; index in ops)
    put_values: {name: [tensor, ...]}         values written by indexed puts
    n_ind: length of the individual axis (first axis)
    observed: nodes compared after each transition (default: all)
    """

    def __init__(self, dag, settable, put_values, n_ind, observed=None, init=None, put_indices=None, base=None):
        self.dag = dag
        self.base = base or {}
        self.settable = settable
        self.put_values = put_values
        self.n_ind = n_ind
        self.observed = tuple(observed) if observed is not None else tuple(dag.sorted_variables_names)
        self.init = init or {}
        self.put_indices = put_indices or {}
        self._expected_cache = {}

    # ---- from-scratch evaluation (the oracle): own topological evaluation of the definitions,
    # independent of State.__getitem__ and of the DAG's pre-computed closures
    def _order(self):
        if getattr(self, "_topo", None) is None:
            anc = {n: set(self.dag.direct_ancestors[n]) for n in self.dag.variables}
            order, done = [], set()
            while len(order) < len(anc):
                ready = sorted(n for n in anc if n not in done and anc[n] <= done)
                if not ready:
                    raise RuntimeError("toy/model graph is not acyclic")
                order += ready
                done |= set(ready)
            self._topo = order
        return self._topo

    def evaluate(self, indep: dict, targets):
        """From-scratch values of `targets` only (their ancestors are evaluated, nothing else); not memoised."""
        need = set()
        stack = list(targets)
        while stack:
            n = stack.pop()
            if n in need:
                continue
            need.add(n)
            stack.extend(self.dag.direct_ancestors[n])
        vals = {}
        for n in self._order():
            if n not in need:
                continue
            var = self.dag[n]
            if n in indep:
                vals[n] = indep[n]
            elif type(var).__name__ == "Hyperparameter":
                vals[n] = var.value
            else:
                vals[n] = var.compute(vals)
        return {t: vals[t] for t in targets}

    def expected(self, indep: dict, key=None):
        if key is None:
            key = tdigest(*[indep[k] for k in sorted(indep)])
        e = self._expected_cache.get(key)
        if e is None:
            vals = {}
            for n in self._order():
                var = self.dag[n]
                parents = self.dag.direct_ancestors[n]
                if n in indep:
                    v = indep[n]
                    vals[n] = "ERR:UNSET" if v is None else copy.deepcopy(v)
                elif type(var).__name__ == "Hyperparameter":
                    vals[n] = var.value
                elif not parents:
                    vals[n] = "ERR:UNSET"
                elif any(isinstance(vals[p], str) for p in parents):
                    # union of the failure classes of the ancestors (whichever is met first may surface)
                    kinds = set()
                    for p in parents:
                        if isinstance(vals[p], str):
                            kinds |= set(vals[p][4:].split("+"))
                    vals[n] = "ERR:" + "+".join(sorted(kinds))
                else:
                    try:
                        vals[n] = var.compute(vals)
                    except Exception:  # the definition itself refuses these inputs
                        vals[n] = "ERR:DEF"
            e = {n: vals[n] for n in self.observed}
            if len(self._expected_cache) > 20000:
                self._expected_cache.clear()
            self._expected_cache[key] = e
        return e


class _Indep(dict):
    """dict of independent values that keeps one digest per entry (values are never mutated in place)."""

    def __init__(self, *a, **k):
        super().__init__(*a, **k)
        self.dig = {key: tdigest(val) for key, val in self.items()}

    def __setitem__(self, key, val):
        super().__setitem__(key, val)
        self.dig[key] = tdigest(val)

    def copy(self):
        new = _Indep.__new__(_Indep)
        dict.__init__(new, self)
        new.dig = dict(self.dig)
        return new

    def key(self):
        return "|".join(self.dig[k] for k in sorted(self.dig))


class Ref:
    """Reference model: current independent values, what a revert restores, the fork mode."""

    __slots__ = ("indep", "fork", "mode")

    def __init__(self, indep, fork=None, mode=None):
        self.indep = indep if isinstance(indep, _Indep) else _Indep(indep)
        self.fork = fork  # None or (node, before_value)
        self.mode = mode

    def copy(self):
        return Ref(self.indep.copy(), self.fork, self.mode)


def _alias_key(t):
    """Two tensor objects that are the same view of the same storage (e.g. `x` and `x.detach()`) must stay aliased in a copy."""
    if isinstance(t, torch.Tensor) and t.numel() > 0:
        return ("storage", t.data_ptr(), tuple(t.shape), tuple(t.stride()), str(t.dtype))
    return ("id", id(t))


def _clone_tensor(t, memo):
    k = _alias_key(t)
    got = memo.get(k)
    if got is None:
        got = t.clone()
        memo[k] = got
    return got


def _clone_value(v, memo):
    if v is None:
        return None
    got = memo.get(("id", id(v)))
    if got is not None:
        return got
    if isinstance(v, WeightedTensor):
        out = WeightedTensor(_clone_tensor(v.value, memo), None if v.weight is None else _clone_tensor(v.weight, memo))
    else:
        out = _clone_tensor(v, memo)
    memo[("id", id(v))] = out
    return out


def copy_state(st: State) -> State:
    """Harness-owned deep copy (does not go through State.clone, which is itself under test).
    Aliasing between `_values` and `_last_fork` is preserved by the shared memo."""
    new = State.__new__(State)
    memo = {}
    for attr, val in vars(st).items():
        if attr == "dag":
            new.dag = st.dag  # immutable, shared
        elif attr == "_values":
            new._values = {k: _clone_value(v, memo) for k, v in val.items()}
        elif attr == "_last_fork":
            new._last_fork = None if val is None else {k: _clone_value(v, memo) for k, v in val.items()}
        elif attr == "_lmc_given":
            pass  # harness bookkeeping, below
        else:
            # anything else the implementation keeps on the object (fork mode, tracked variables, and whatever a later version
            # adds): an independent copy, so that the harness does not depend on the exact list of attributes
            setattr(new, attr, copy.deepcopy(val))
    # harness bookkeeping (not part of State): the tensor object that was current before the last plain assignment
    given = getattr(st, "_lmc_given", None)
    if given:
        new._lmc_given = {k: _clone_value(v, memo) for k, v in given.items()}
    return new


def carries_axis(v, n_ind):
    if v is None:
        return True
    shape = v.shape
    return len(shape) >= 1 and shape[0] == n_ind


def partial_revert_enabled(st: State, n_ind: int) -> bool:
    """Documented precondition of State.revert(subset): every value held on both sides
    (forked and current) for the forked node and its children carries the individual axis."""
    if st._last_fork is None:
        return True  # then it must raise the input error
    for k, old in st._last_fork.items():
        cur = st._values[k]
        if old is None or cur is None:
            continue
        if not (carries_axis(old, n_ind) and carries_axis(cur, n_ind)):
            return False
    return True


def _index_put(cur, val, idx, acc):
    out = cur.clone()
    if idx is None:
        return cur + val if acc else val.clone()
    if isinstance(idx, (list, tuple)):
        idx = tuple(idx)
    if acc:
        out[idx] = out[idx] + val
    else:
        out[idx] = val
    return out


def select_rows(mask_list, old, cur):
    m = torch.tensor(mask_list, dtype=torch.bool)
    mm = m.reshape(m.shape + (1,) * (old.ndim - 1))
    return torch.where(mm, old, cur)


def _read(st, v):
    """Value, or "ERR:UNSET" (input error about a required unset independent variable) / "ERR:DEF" (anything else)."""
    try:
        return st[v]
    except LeaspyInputError as exc:
        return "ERR:UNSET" if "independent variable which is required" in str(exc) else "ERR:DEF"
    except Exception:
        return "ERR:DEF"


def _same_error(got, exp):
    """Both must be errors, and the class observed must be one of those the from-scratch evaluation meets:
    UNSET = a needed independent value is unset (must be reported as the input error), DEF = a definition
    refuses its inputs (e.g. non-finite values)."""
    if not (isinstance(got, str) and isinstance(exp, str)):
        return False
    return got[4:] in exp[4:].split("+")


class StepError(Exception):
    """The implementation deviated from the reference in the operation itself."""


def apply_op(u: Universe, st: State, ref: Ref, op):
    """Apply `op` to the real state and to the reference. Returns (state, ref, note) where state may be a
    new object (clone).  Raises StepError on a deviation detectable in the step itself."""
    kind = op[0]
    note = None
    if kind in ("put", "ctxput", "setshared", "revert", "clone") and getattr(st, "_lmc_given", None):
        st._lmc_given = {}  # the bookkeeping of "scribble" only describes the state right after a plain assignment
    if kind in ("set", "ctxset"):
        if kind == "ctxset":
            _, mode, v, x = op
        else:
            _, v, x = op
            mode = "same"
        val = None if x is None else _clone_value(u.settable[v][x], {})
        eff_mode = ref.mode if mode == "same" else mode
        prev_obj = st._values.get(v)
        if kind == "ctxset":
            before_mode = st.auto_fork_type
            with st.auto_fork(MODES[mode]):
                st[v] = val
            if st.auto_fork_type is not before_mode:
                raise StepError("auto_fork context did not restore the fork mode")
        else:
            st[v] = val
        # (only a snapshot taken by deep copy is isolated from that object, and only if the state does not use it any more)
        st._lmc_given = {v: prev_obj} if prev_obj is not None and eff_mode == "COPY" else {}
        # documented: a forked state is held "until either reversion or a new assignment"
        ref.fork = (v, ref.indep[v]) if eff_mode is not None else None
        ref.indep[v] = val
    elif kind == "put":
        _, v, k, idx, acc = op
        val = u.put_values[v][k]
        cur = ref.indep[v]
        need_cur = acc or idx is not None
        try:
            if idx is None:
                st.put(v, val.clone(), accumulate=acc)
            else:
                st.put(v, val.clone(), indices=(idx,) if not isinstance(idx, (list, tuple)) else tuple(idx), accumulate=acc)
            raised = False
        except LeaspyInputError:
            raised = True
        if need_cur and cur is None:
            if not raised:
                raise StepError(f"put on unset '{v}' did not raise an input error")
            note = "input_error"
        else:
            if raised:
                raise StepError(f"put on set '{v}' raised an input error")
            new = _index_put(cur, val, idx, acc) if need_cur else val.clone()
            ref.fork = (v, cur) if ref.mode is not None else None
            ref.indep[v] = new
    elif kind == "setshared":
        # ONE tensor object handed to the state as the value of two variables (a proposal tried for two variables / in two
        # chains): the state may hold it by reference, it must never write into it
        _, v1, v2, x = op
        val = _clone_value(u.settable[v1][x], {})
        st[v1] = val
        st[v2] = val
        ref.indep[v1] = _clone_value(val, {})
        ref.fork = (v2, ref.indep[v2]) if ref.mode is not None else None
        ref.indep[v2] = _clone_value(val, {})
    elif kind == "scribble":
        # COPY strategy ("forked values are deep copies"): the caller re-uses the tensor it had handed in BEFORE the last
        # assignment for something else (writes into it); the snapshot must not be affected
        _, v = op
        held = st._lmc_given.get(v) if hasattr(st, "_lmc_given") else None
        if held is None:
            raise StepError("harness: scribble without a previously given tensor")
        t = held.value if isinstance(held, WeightedTensor) else held
        t.mul_(0).add_(777.0)
        st._lmc_given = {}
    elif kind == "to_device":
        # moving the state to the device it is already on changes nothing observable (values, snapshot, fork mode)
        st.to_device(torch.device("cpu"))
    elif kind == "ctxput":
        # an indexed / accumulating update made inside an auto_fork(mode) context (mode None = without snapshot)
        _, mode, v, k, idx, acc = op
        val = u.put_values[v][k]
        cur = ref.indep[v]
        if cur is None:
            raise StepError("harness: ctxput on an unset variable is not in the explored menu")
        before_mode = st.auto_fork_type
        with st.auto_fork(MODES[mode]):
            if idx is None:
                st.put(v, val.clone(), accumulate=acc)
            else:
                st.put(v, val.clone(), indices=tuple(idx), accumulate=acc)
        if st.auto_fork_type is not before_mode:
            raise StepError("auto_fork context did not restore the fork mode")
        ref.fork = (v, cur) if mode is not None else None
        ref.indep[v] = _index_put(cur, val, idx, acc)
    elif kind in ("read", "readtv"):
        v = op[1]
        exp = u.expected(ref.indep, ref.indep.key())[v] if v in u.observed else None
        if kind == "readtv":
            # the other public read of the explored state itself: the plain tensor (weighted value of a weighted tensor)
            try:
                got = st.get_tensor_value(v)
            except LeaspyInputError as exc:
                got = "ERR:UNSET" if "independent variable which is required" in str(exc) else "ERR:DEF"
            except Exception:  # noqa: BLE001
                got = "ERR:DEF"
            if isinstance(exp, WeightedTensor):
                exp = exp.weighted_value
        else:
            got = _read(st, v)
        if v in u.observed:
            if isinstance(exp, str) or isinstance(got, str):
                if not _same_error(got, exp):
                    raise StepError(
                        f"read('{v}') {'raised ' + got if isinstance(got, str) else 'returned a value'} "
                        f"but from-scratch evaluation {'raises ' + exp if isinstance(exp, str) else 'gives a value'}"
                    )
                note = "input_error"
            elif not same_value(got, exp):
                raise StepError(f"read('{v}') differs from from-scratch evaluation: got {brief(got)}, expected {brief(exp)}")
    elif kind == "precompute":
        try:
            st.precompute_all()
            raised = False
        except LeaspyInputError:
            raised = True
        should = any(v is None for v in ref.indep.values())
        if raised != should:
            raise StepError(f"precompute_all raised={raised}, but unset independent variable present={should}")
        if raised:
            note = "input_error"
    elif kind == "revert":
        mask = op[1] if len(op) > 1 else None
        try:
            if mask is None:
                st.revert()
            else:
                # (optional third field: the mask is handed over as a 0/1 tensor of an integer dtype, which `revert` converts)
                st.revert(torch.tensor(mask, dtype=getattr(torch, op[2]) if len(op) > 2 else torch.bool))
            raised = False
        except LeaspyInputError:
            raised = True
        if ref.fork is None:
            if not raised:
                raise StepError("revert without a forked state did not raise an input error")
            note = "input_error"
        else:
            if raised:
                raise StepError("revert raised an input error although a forked state exists")
            node, before = ref.fork
            if mask is None:
                ref.indep[node] = before
            else:
                cur = ref.indep[node]
                if before is None or cur is None:
                    ref.indep[node] = None
                else:
                    ref.indep[node] = select_rows(mask, before, cur)
            ref.fork = None
    elif kind == "clone":
        _, disable, keep = op
        origin, origin_ref = st, ref
        st = origin.clone(disable_auto_fork=disable, keep_last_fork=keep)
        ref = origin_ref.copy()
        if disable:
            ref.mode = None
        if not keep:
            ref.fork = None
        if MODE_NAMES[st.auto_fork_type] != ref.mode:
            raise StepError("clone has the wrong fork mode")
        # the clone must not share any mutable value with its origin: scribble over a throw-away
        # clone of the same kind and re-check the origin
        scratch = origin.clone(disable_auto_fork=disable, keep_last_fork=True)
        for d in (scratch._values, scratch._last_fork or {}):
            for k, val in d.items():
                if val is None or type(u.dag[k]).__name__ == "Hyperparameter":
                    continue
                t = val.value if isinstance(val, WeightedTensor) else val
                if isinstance(t, torch.Tensor) and t.is_floating_point():
                    t.mul_(0).add_(12345.0)
        bad = check_all(u, origin, origin_ref, deep=True)
        if bad:
            raise StepError(f"mutating a clone changed its origin: {bad[0]}")
    elif kind == "mode":
        st.auto_fork_type = MODES[op[1]]
        ref.mode = op[1]
    else:
        raise ValueError(op)
    return st, ref, note


def check_all(u: Universe, st: State, ref: Ref, deep: bool = False):
    """Oracle evaluated after every transition.

    Default (no copy): every *cached* value equals its from-scratch value and independent values equal the
    reference (the documented invariant "all not-None values are self-consistent"); values that are not cached
    are checked when they get read (every read is a transition of the menu and compares what it returns).
    deep=True additionally reads every observed node through a throw-away copy."""
    exp = u.expected(ref.indep, ref.indep.key())
    bad = []
    for n in u.observed:
        got = st._values[n]
        e = exp[n]
        if got is None:
            if n in ref.indep and ref.indep[n] is not None:
                bad.append((n, "independent value lost", None, brief(ref.indep[n])))
            continue
        if isinstance(e, str):
            bad.append((n, "holds a cached value although an independent ancestor is unset", brief(got), None))
        elif not same_value(got, e):
            bad.append((n, "differs from from-scratch evaluation", brief(got), brief(e)))
    if bad or not deep:
        return bad
    probe = copy_state(st)
    for n in u.observed:
        got = _read(probe, n)
        e = exp[n]
        if not isinstance(got, str) and not isinstance(e, str):
            # the other public read: the plain tensor (weighted value of a weighted tensor)
            try:
                tv = probe.get_tensor_value(n)
                te = e.weighted_value if isinstance(e, WeightedTensor) else e
                if not same_value(tv, te):
                    bad.append((n, "get_tensor_value differs from from-scratch evaluation", brief(tv), brief(te)))
            except Exception as exc:  # noqa: BLE001
                bad.append((n, f"get_tensor_value raises {type(exc).__name__}", None, brief(e)))
        if isinstance(e, str) or isinstance(got, str):
            if not _same_error(got, e):
                bad.append(
                    (n, "raises instead of giving a value" if isinstance(got, str) else "gives a value instead of an error", brief(got), brief(e))
                )
        elif not same_value(got, e):
            bad.append((n, "differs from from-scratch evaluation", brief(got), brief(e)))
    return bad


_KNOWN_STATE_ATTRS = ("dag", "_values", "_last_fork", "auto_fork_type", "_tracked_variables", "_lmc_given")


def _other_attributes_key(st: State):
    """Whatever else the implementation keeps on the State object (a later version may add caches): part of the canonical key,
    so that two states are only merged when they agree on it too.  Empty on the reference implementation."""
    out = []
    for attr in sorted(vars(st)):
        if attr in _KNOWN_STATE_ATTRS:
            continue
        val = getattr(st, attr)
        if isinstance(val, dict):
            out.append((attr, tuple(sorted((str(k), tdigest(v) if isinstance(v, (torch.Tensor, WeightedTensor)) else repr(v)) for k, v in val.items()))))
        elif isinstance(val, (set, frozenset)):
            out.append((attr, tuple(sorted(map(repr, val)))))
        elif isinstance(val, (torch.Tensor, WeightedTensor)):
            out.append((attr, tdigest(val)))
        else:
            out.append((attr, repr(val)))
    return tuple(out)


def state_key(u: Universe, st: State, ref: Ref):
    cached = tuple(st._values[n] is not None for n in u.dag.sorted_variables_names)
    if st._last_fork is None:
        fk = None
    else:
        fk = tuple(sorted((k, tdigest(v)) for k, v in st._last_fork.items()))
    return (
        ref.indep.key(),
        cached,
        fk,
        None if ref.fork is None else (ref.fork[0], tdigest(ref.fork[1])),
        ref.mode,
        _other_attributes_key(st),
    )


def initial(u: Universe, mode=None):
    st = State(u.dag, auto_fork_type=MODES[mode])
    indep = {k: None for k in u.dag.sorted_variables_names if u.dag[k].is_settable}
    for k, val in u.base.items():
        with st.auto_fork(None):
            st[k] = copy.deepcopy(val)
        indep[k] = copy.deepcopy(val)
    for k, x in u.init.items():
        val = u.settable[k][x].clone()
        with st.auto_fork(None):
            st[k] = val
        indep[k] = val
    return st, Ref(indep, None, mode)


def menu(u: Universe, st: State, ref: Ref, *, accumulate=True, clones=True, modes=(None, "REF", "COPY"),
         reads=None, masks=None, sets=None, ctx=False, puts=True, aliasing=False, tv_reads=()):
    ops = [["readtv", v] for v in tv_reads if v in u.dag.variables]
    if aliasing:
        # one tensor object as the value of two variables of the same shape (first such pair)
        names = [v for v in u.settable if isinstance(u.settable[v][0], torch.Tensor)]
        pair = next(((a, b) for i, a in enumerate(names) for b in names[i + 1:]
                     if u.settable[a][0].shape == u.settable[b][0].shape and u.settable[a][0].dtype == u.settable[b][0].dtype), None)
        if pair is not None:
            ops += [["setshared", pair[0], pair[1], 0], ["setshared", pair[0], pair[1], 1]]
        # COPY strategy: the tensor that was current before the last assignment is re-used (written into) by the caller
        given = getattr(st, "_lmc_given", None) or {}
        if ref.mode == "COPY" and ref.fork is not None and ref.fork[0] in given:
            held = given[ref.fork[0]]
            ht = held.value if isinstance(held, WeightedTensor) else held
            in_use = any(
                (x.value if isinstance(x, WeightedTensor) else x).data_ptr() == ht.data_ptr()
                for x in st._values.values() if x is not None and isinstance(x.value if isinstance(x, WeightedTensor) else x, torch.Tensor)
            )
            if not in_use:
                ops.append(["scribble", ref.fork[0]])
    for v, vals in (sets if sets is not None else u.settable).items():
        for x in list(range(len(vals))) + [None]:
            ops.append(["set", v, x])
    if ctx:
        v0 = next(iter(u.settable))
        for m in modes:
            ops.append(["ctxset", m, v0, 0])
    for v, vals in (u.put_values.items() if puts else ()):
        for k in range(len(vals)):
            for idx in u.put_indices.get(v, [None]):
                ops.append(["put", v, k, idx, False])
                if accumulate:
                    ops.append(["put", v, k, idx, True])
    for v in ([r for r in reads if r in u.dag.variables] if reads is not None else u.observed):
        ops.append(["read", v])
    ops.append(["precompute"])
    ops.append(["to_device"])
    ops.append(["revert"])
    forked_weighted = ref.fork is not None and (
        isinstance(ref.fork[1], WeightedTensor) or isinstance(ref.indep.get(ref.fork[0]), WeightedTensor)
    )
    # (a per-individual revert of a re-assigned *weighted* data variable is documented as not implemented
    # when the weights differ: outside the explored contract)
    if partial_revert_enabled(st, u.n_ind) and not forked_weighted:
        all_masks = masks
        if all_masks is None:
            all_masks = [[(m >> i) & 1 for i in range(u.n_ind)] for m in range(2 ** u.n_ind)]
        for m in all_masks:
            ops.append(["revert", list(m)])
        proper = [list(m) for m in all_masks if 0 < sum(m) < len(m)]
        if proper:
            ops.append(["revert", proper[0], "uint8"])
            if len(proper) > 1:
                ops.append(["revert", proper[-1], "int64"])
    if clones:
        ops += [["clone", False, False], ["clone", True, False], ["clone", False, True]]
    for m in modes:
        if m != ref.mode:
            ops.append(["mode", m])
    return ops


def run_history(u: Universe, history, mode=None):
    """Re-execute one history on a fresh State, checking the oracle after every step.
    Returns a list of (step index, op, reason, details)."""
    st, ref = initial(u, mode)
    out = []
    for i, op in enumerate(history):
        if op[0] == "revert" and len(op) > 1 and not partial_revert_enabled(st, u.n_ind):
            out.append((i, op, "harness: partial revert precondition not met in replay", None))
            return out
        try:
            st, ref, _ = apply_op(u, st, ref, op)
        except StepError as e:
            out.append((i, op, str(e), None))
            return out
        bad = check_all(u, st, ref, deep=True)
        if bad:
            out.append((i, op, f"after {op}: '{bad[0][0]}' {bad[0][1]}", bad[0][2:]))
            return out
    return out


def bfs(u: Universe, acc, *, max_depth, menu_kwargs, mode=None, label=None, max_states=None, case_base=None):
    """Breadth-first exploration. Every transition executes the real State; the oracle is evaluated after
    every transition.  `acc` receives counts and violations."""
    from collections import deque

    st0, ref0 = initial(u, mode)
    seen = {state_key(u, st0, ref0)}
    frontier = deque([(st0, ref0, ())])
    acc.state()
    depth_reached = 0
    fixpoint = True
    while frontier:
        st, ref, hist = frontier.popleft()
        if max_depth is not None and len(hist) >= max_depth:
            fixpoint = False
            continue
        for op in menu(u, st, ref, **menu_kwargs):
            s2 = copy_state(st)
            r2 = ref.copy()
            acc.transition()
            acc.evaluation()
            h2 = hist + (op,)
            case = dict(case_base or {}, history=[list(o) for o in h2], mode=mode)
            try:
                s2, r2, note = apply_op(u, s2, r2, op)
            except StepError as e:
                acc.violation(classify(op, str(e)), str(e), case)
                acc.outcome("step-violation")
                continue
            except Exception as e:  # any other exception type escaping from State is a violation too
                acc.violation(classify(op, f"unexpected {type(e).__name__}"), f"{type(e).__name__}: {e}", case)
                acc.outcome("exception")
                continue
            bad = check_all(u, s2, r2)
            if bad:
                n, why, got, exp = bad[0]
                acc.violation(
                    classify(op, why, s2, r2, n),
                    f"after {op}: '{n}' {why}",
                    case,
                    expected=exp,
                    observed=got,
                )
                acc.outcome("stale")
                continue  # do not explore beyond an inconsistent state
            acc.outcome(f"{op[0]}{'(subset)' if op[0] == 'revert' and len(op) > 1 else ''}:{note or 'ok'}")
            k = state_key(u, s2, r2)
            if k not in seen:
                seen.add(k)
                acc.state()
                acc.nontriv(repr((label, mode, k)))
                depth_reached = max(depth_reached, len(h2))
                if max_states is not None and len(seen) >= max_states:
                    acc.cap(f"{label}: state cap {max_states} reached at depth {len(h2)}")
                    return len(seen), depth_reached, False
                frontier.append((s2, r2, h2))
                if len(seen) % 64 == 1:
                    acc.sample({"graph": label, "history": [list(o) for o in h2]})
    return len(seen), depth_reached, fixpoint


def classify(op, why, st=None, ref=None, node=None):
    """Stable violation signature: (operation kind | mismatch kind | minimal feature)."""
    kind = op[0]
    if kind == "revert" and len(op) > 1:
        kind = "revert(subset)"
    feature = ""
    if st is not None and kind == "revert(subset)" and node is not None:
        try:
            v = st._values.get(node)
            t = v.value if isinstance(v, WeightedTensor) else v
            if t is not None and not bool(torch.isfinite(t).all()):
                feature = "|non-finite value on a reverted node"
        except Exception:
            pass
    why = why.split(":")[0]
    import re

    why = re.sub(r"'[^']*'", "<var>", why)
    return f"State.{kind}|{why}{feature}"

"""Regenerates MANIFEST.json from the table below (kept in one place so it always validates)."""
import json, sys
from pathlib import Path

CHECKS = {
    # id: (level, technique, text, note)
    "C01": ("model_checking", "explicit-state BFS over State operation histories on the real object, from-scratch oracle after every transition",
            "All reachable states of the real State object under a finite operation menu (fixpoint on small toy graphs, depth-bounded on larger ones and on every shipped model graph); every transition is executed on the implementation and compared with a from-scratch evaluation. The menu includes moves of the state, updates with and without snapshot, COPY / REF forking with tensors the caller keeps, weighted values with non-binary weights, reads through get_tensor_value, per-individual reverts with boolean masks and 0/1 masks of integer dtypes; State attributes the harness does not know are part of the canonical key.",
            "Tiny value alphabets; partial reverts only under the documented precondition; PYTHONHASHSEED=0, one torch thread."),
}
CHECKS.update({
    "C02": ("model_checking", "phased explicit-state BFS (proposal / allowed reads / every rejection mask / following history) on the real State + exhaustive scripted acceptance patterns through the real samplers",
            "Every reachable state of the proposal-decision protocol on the real State of each model kind (all warm-up/read subsets, a proposal alphabet incl. overflowing and non-finite values, every per-individual mask, bounded following history) and every scripted acceptance pattern of the four samplers; after every transition the state is compared with a from-scratch evaluation of where(rejected, before, proposed). The protocol also contains a move of the state (to_device) and an update made without snapshot between the proposal and the decision (a later rejection must then be refused with the documented input error, never half-applied). Entirely null proposals, the COPY forking strategy and 0/1 rejection masks of integer dtypes are part of the alphabet.",
            "Proposal alphabets and cohort sizes (2-3 individuals) are small; following history depth-bounded; PYTHONHASHSEED=0."),
    "C19": ("model_checking", "exhaustive stepping of the real (iteration, temperature) machine over a configuration grid + exhaustive binary acceptance-history tree through the real adaptive-scale code",
            "Every configuration of the annealing grid is run on the real algorithm object (initialisation + one update per iteration, plus complete tiny fits) and every binary acceptance history up to three windows is fed through every sampler class; invariants are checked on every transition. Proposal scales start at 1, at 1e-7..3e-10 and at 1e28; factors 0.1, 0.5, 0.9. Configurations also reach the algorithm through a settings object that served before for another number of iterations; a scale binding records every sampler's acceptance vectors and scales during real personalisations / fits with windows 1-4 (5 in thorough), ONE algorithm object run twice: scales start from the initial value, move only in the adaptation step at multiples of the window, by exactly the configured factor.",
            "Default (linear) annealing scheme only; grids as listed in the evidence bounds; reference plateau length max(1, A // (P-1))."),
})
CHECKS.update({
    "C03": ("model_checking", "deviation-bounded exhaustive enumeration of scripted environment answers (normal/uniform draws, ties, shuffle orders, locality pairs) through the real samplers, with recording spies on State.put and the metropolis step",
            "Every script with a bounded number of deviations from the default draws is run through the real sample() of the four sampler kinds, for every latent variable of the catalogue models, several start states and inverse temperatures; each decision is compared with the documented rule evaluated from scratch (exactly, ties included) and draw consumption is counted.",
            "Small draw alphabets; nothing about the invariant distribution of the chain; mixture model not covered."),
    "C05": ("model_checking", "exhaustive stepping of the real iteration machine (k, n_burn_in, S_k) with a probe model over a configuration grid, plus recorded complete fits of real models",
            "Every configuration (iterations, burn-in fraction or count, step power) of the grid drives the real _maximization_step for every iteration with a probe model returning a known statistics sequence; the weights of every s_j in S_k are compared with the exact recursion; real fits bind the same recursion to real models. The configuration reaches the algorithm through every route: constructor keywords, algo.load_parameters, options written into an existing settings object, one settings object reused after n_iter was changed; fractions include values that are not whole percents.",
            "n_burn_in = count or int(fraction*n_iter); probe model replaces only the two model methods the step calls."),
    "C08": ("exploration", "exhaustive grid enumeration of distribution parameters and layouts through the real families and model states against scipy.stats",
            "Full products of small parameter alphabets (values, locations, scales, Weibull shape/scale, shifts, censoring, layouts, dtypes the models reach) evaluated through the real distribution families and through real model states, compared entry by entry with scipy.stats in float64.",
            "Grid alphabets only; tolerance 2e-5 of the summed term magnitudes; float32 event times are unreachable from the models and excluded."),
    "C09": ("exploration", "exhaustive grid enumeration of parameters, individual parameters, age lists and request layouts through estimate / compute_individual_trajectory against an independent float64 closed form",
            "Every combination of model kind, dimension, sources, parameter vector, individual parameters, age list and request form in the grid is run through the real estimate(); values are compared with an independent numpy implementation of the documented formula, plus range, monotonicity, reference-time value, order and layout of the result. Ages include values with more than six decimals. Request forms include ages held as a reversed numpy view (negative stride) and as a plain number; extreme log-accelerations (|xi| up to 6.5) are evaluated at ages tau + c exp(-xi) where such an individual is mid-curve.",
            "Grid alphabets only; per-value tolerance derived from float32 rounding of the logit; joint event columns only checked for count and range."),
})
CHECKS.update({
    "C15": ("model_checking", "exhaustive enumeration of all labelled digraphs up to n nodes (plus variants, relabellings, insertion orders, model graphs, other hash seeds) through both real DAG constructors against networkx",
            "All labelled digraphs on <= 4 nodes (quick) / all 2^20 on 5 nodes (thorough), with self-loop / unknown-reference variants, every relabelling and insertion order for small n, enumerated larger families and every model kind's graph, are constructed by the real VariablesDAG and compared with networkx: acceptance, topological order, exact transitive sets in order, determinism across constructions, orders and interpreter hash seeds. Definitions are also given through functions that share one code object (explicit __signature__, functools.wraps) and with reserved-looking variable names (state, self, ...).",
            "Graphs beyond the enumerated sizes are covered only by the hand-enumerated families; tie-break order itself is not asserted, only its determinism."),
    "C20": ("exploration", "exhaustive enumeration of visit histories / row orders / request forms for the constant model and of a deterministic cohort catalogue for the LME model against reference implementations",
            "All 4^6 value tables (x row orders, prediction types, request forms) through the real constant model against a 10-line reference; a closed-form catalogue of LME cohorts through the real fit/personalize/estimate with the MixedLM fit captured: random effects against statsmodels' own and against (Z'Z + Psi^-1)^-1 Z'r, trajectories affine in age. One ConstantModel object is personalised several times in a row with every column order / feature subset (parameters and estimates after every call, parameters listed in another key order); LME fits also use the powell / nm optimisers and a model saved and loaded back before use.",
            "LME cohorts are a finite catalogue; age-normalisation constants are taken as stored; optimiser failures of statsmodels itself are expected outcomes."),
})
CHECKS.update({
    "C14": ("exploration", "exhaustive enumeration of small tables (all missing patterns, all row permutations, identifier types, layouts) and of a malformation catalogue through the real readers against a pure-Python reference",
            "Every valid table of the bounded space (<= 3 individuals x <= 3 visits x 2 features, all NaN patterns, every row permutation, four identifier types, visit / event / joint / covariate layouts, column and index forms) is ingested by the real readers and compared with a dict-based reference (order, sorting, alignment, mask, counts, round trip through to_pandas, caller's table untouched); every malformation of the property's families at every row position must raise LeaspyDataInputError. Tables also come with row labels that are not 0..n-1 in order (reversed, sparse, text, all equal) and with individuals sharing the same event time and indicator.",
            "Tables beyond the stated sizes are not covered; rejection is demanded only for the malformation families the property lists."),
})
CHECKS.update({
    "C16": ("exploration", "exhaustive enumeration of small containers (identifiers x namings x shapes x value types x values) and breadth-first walk of every conversion chain between the five forms to a fixpoint, against a plain-Python reference",
            "Every container of the bounded space is converted along every chain of dict / table / tensors / CSV / JSON conversions (breadth-first with deduplication until no new container content appears) and every intermediate form and final container is compared with the reference (identifiers as strings in order, names, shapes, values exactly or to single precision once a tensor is on the path); every malformed addition must be refused and leave the container unchanged. One working dictionary re-bound and handed over for several individuals must leave the earlier entries as they were added. The container is converted (tensors, table) after each addition: every conversion shows the container as it is then.",
            "Alphabets of identifiers / names / shapes / values are small; empty containers, tuples and names ending in _<digits> are left out."),
})
CHECKS.update({
    "C04": ("exploration", "exhaustive enumeration of model kind x noise structure x small cohorts with every missing pattern x latent-state alphabet x phase through the real _maximization_step against float64 closed forms",
            "Every case is a 3-4 step history through the real _maximization_step (memory-less, first iteration after, with memory) for 11 model / noise configurations incl. the mixture model, all missing-entry patterns of small cohort layouts and all combinations of a 2-valued latent alphabet; every updated parameter is compared with the closed form computed in float64 from the statistics in force and the pre-step parameters; seeded real fits bind every iteration to the same oracle.",
            "Cohorts of 2-3 individuals; latent alphabets of 2 values per group; mixture responsibilities accepted in the implementation's likelihood-only form."),
})
CHECKS.update({
    "C12": ("exploration", "exhaustive enumeration of model kind x dimension x sources x noise x feature naming x instance name x construction route x parameter source (tiny seeded fits, hand-written vectors) through fit / save / load / save against self-consistency and round-trip oracles",
            "Every configuration of the grid is fitted (tiny seeded fits with a memory phase) or loaded from hand-written numbers, saved, re-loaded, saved again (three generations): population variables equal their prior modes, derived values and trajectories agree with the saved parameters (float64 closed form), the reloaded model has equal class, hyperparameters, parameters and trajectories, and the file is reproduced byte for byte. Cases include a non-default number of competing events, an object calibrated, used (trajectories computed) and calibrated again, and the instance name of the reloaded object. The content of every file is also read as a dictionary, the same dictionary object twice (same model both times, equal to the model read from the file); hand-written content may carry a stale (informative) mixing_matrix entry, tiny dispersions, keys sorted by save(sort_keys=True).",
            "Grid alphabets only; float32 rounding and the documented 0-d vs (1,) noise_std shape are tolerated on the first reload only."),
})
CHECKS.update({
    "C06": ("exploration", "exhaustive metamorphic enumeration: model kind x cohort shape x every missing pattern x fill value written under the mask x extra padding, through the real state / statistics / updates / fit / personalizations",
            "For every cohort and missing pattern of the bounded space the dataset tensors are rewritten with each fill value (0, finite, huge, NaN, +-inf) at masked positions and padded visits and with 0-2 extra padding visits; likelihood terms, statistics, parameter updates, trajectories at real visits, scripted fits and personalizations must be bit-identical (same shapes) or rounding-identical (other padding), counts and noise must equal a float64 reference over observed entries, and results must not depend on which other entries are missing. Data are also loaded over data already held by the state (same stored numbers, other mask) and every parameter of the data-driven initialisation of a new model is compared across fills and padding amounts.",
            "Cohorts of 2-3 individuals with <= 3 visits; personalization / fit part on the smallest shapes; LME and constant models not covered."),
})
CHECKS.update({
    "C10": ("exploration", "exhaustive grid enumeration of states (individual log-accelerations, population values, sources, cohort sizes) through the real re-centring step and of (v0, g, betas) products through the real mixing-matrix construction, against float64 re-derivations",
            "For every state of the grid the real compute_sufficient_statistics is applied to a cloned State and trajectories, attachment terms, event terms and the set of modified variables are compared before/after; for every (dimension, sources, v0, g, betas) of the grid every row of mixing_matrix and every space shift is checked orthogonal to the direction of progression in the model's own metric (also through autograd tangents of the real model function) and the basis has full rank. Gauge cohorts include joint models with competing events and a member without any observed value; orthogonality is also checked on models loaded from a file that carries a mixing matrix computed for other values.",
            "Grid alphabets only; Bernoulli attachment and 2-event joint models not covered; points where (G v0)[0] == 0 are unreachable from the models and excluded."),
})
CHECKS.update({
    "C18": ("exploration", "exhaustive enumeration of models x feature lists x random and table-driven designs x seeds, and of an invalid-design catalogue, through the real simulate() with recording wrappers on every random source",
            "Every valid design of the grid (random designs over small alphabets of all parameters, every visit table with <= 3 rows plus hand tables) is simulated with every catalogue model and feature list under a draw budget / alarm: individuals, rounded unique increasing ages, finite values in [0,1], one reported parameter row per individual, columns holding the named feature's trajectory for the reported parameters; every invalid design must be refused with LeaspyAlgoInputError before any random draw. Valid requests on the other model kinds must be refused before any draw; every completed valid case is run a second time with the very same request objects (must complete and give the same table); identifiers may be categorical, with unused categories.",
            "Design alphabets are small; validity is the documented requirement set; NaN / inf / bool parameter values and unknown feature names are outside the space."),
})
CHECKS.update({
    "C13": ("model_checking", "explicit-state BFS over sequences of public API calls (fit / estimate / personalize x 3 / simulate / save+load) on a real model object, deduplicated on a canonical key of what the object holds, with deep snapshots around every call and a differential oracle against a history-free model",
            "Every call sequence up to the depth bound is executed on real model objects (states = canonical keys of parameters + data / latent values held by model.state); around every call the model, the caller's table / Data / settings are deep-snapshotted; non-fit calls must change nothing and leave nothing behind, a repeated call must repeat its answer, and the result of a call after any history must be bit-identical to the same call on a model holding the same parameters and no history (optimiser start point included). Calls with custom settings also pass keyword arguments next to the settings object; the estimate request mixes a list, an array and a single age given as a number; the benchmark kinds (lme with and without random slope, constant) are explored with their own BFS (whole-object snapshot, inputs, repetition, freshly loaded reference).",
            "Depth 3 (quick) / 4 (thorough); tiny fits and personalizations; mixture model not covered; where a saved file is not bit-faithful (C12 territory) the reference gets the exact parameter tensors."),
})
CHECKS.update({
    "C11": ("exploration", "exhaustive enumeration of algorithm x model x seed x logging-option product x prior activity in the interpreter, plus fresh interpreters under five hash seeds, comparing byte-level result digests with a reference run",
            "Every accepted combination of print / save / plot periodicities, patient plots, sourcewise flag and output path, and every prior activity of the menu (consumed random numbers, other fits / personalizations first, reused settings object, dtype switches), is run for fit (three population samplers), the three personalizations and simulate on two model kinds and three seeds; the byte-level digest of the result must equal that of the plain reference run, also from freshly started interpreters under PYTHONHASHSEED 0..4; refused option combinations must be refused at settings time. A fit with annealing on goes through the same grids; scipy_minimize with n_jobs >= 2 is repeated inside one new interpreter (same cohort twice in a row and again after other cohorts); on a model object fitted in the process the seeded personalize / simulate call is made twice (identical bytes). One seeded algorithm object (algorithm_factory) is run three times in a row (new model copies, random numbers consumed in between): every run returns the bytes of the public call.",
            "Tiny data, n_iter 6; the full logging product only for fit(Gibbs) in the thorough tier, 2-valued grid elsewhere."),
    "C17": ("exploration", "exhaustive enumeration of model kind x cohort x identifier scheme x input form x algorithm x settings (iterations, burn-in, annealing, seed, optimiser) with recording spies on scipy.optimize.minimize, the individual sampler and the posterior summarisers",
            "Every case of the grid is personalised by the real algorithms: keys = input identifiers (as strings) in input order, expected shapes, finite values; scipy_minimize: the objective re-evaluated from scratch at the returned point is not worse than at the recorded start; MCMC: the kept draws are bit-equal to the chain's draws after burn-in, their recorded attachment / regularity equal the from-scratch values, and the result is exactly their mean / the first draw of minimal loss per individual; with n_jobs >= 2 (separate interpreter, optimisations recorded inside the workers with the identifier they ran for) the estimate returned under an identifier has, on that individual's own data, the objective value the optimiser reported for it.",
            "Cohorts of 1-3 individuals; n_burn_in == n_iter (no kept draw) is outside the property's domain; mixture model only with hand-written parameters."),
})
CHECKS.update({
    "C07": ("exploration", "exhaustive metamorphic enumeration of ordered cohorts drawn from a 5-individual catalogue, replacements of the other members' data, alone-vs-batch, permutations, scripted position-indexed draws and n_jobs through the real state / sampler / personalizations",
            "Every ordered cohort of size 1-3 from the catalogue, every replacement of the other members' values, every permutation and n_jobs in {1,2,3} is run: per-individual attachment / regularity terms, scripted sampler decisions and personalised parameters must be bit-identical when only others change, rounding-identical alone vs in batch, totals must be the sums of per-individual terms, permutations must permute outputs, and the number of workers must not change keys, order, the start point of any individual's optimisation (recorded inside the joblib workers, bit-exact) or (within the stated optimiser tolerance) values; every n_jobs call is repeated with a used worker pool (identical bytes); individual samplers are also driven with an aggressive adaptive tuning, and other members may have no observed value at all.",
            "Catalogue of 5 individuals; final values across n_jobs decided up to the optimiser tolerance of DESIGN 2.3 (start points exactly)."),
})
NOT_APPLICABLE = {}

def main():
    props = [json.loads(l)["id"] for l in open("/verif/properties.jsonl")]
    checks = []
    for pid in props:
        if pid not in CHECKS:
            continue
        level, technique, text, note = CHECKS[pid]
        checks.append({
            "property_id": pid,
            "quick_cmd": f"PYTHONHASHSEED=0 /venv/bin/python -m lmc.run {pid} --tier quick",
            "thorough_cmd": f"PYTHONHASHSEED=0 /venv/bin/python -m lmc.run {pid} --tier thorough",
            "evidence_file": f"/verif/evidence/{pid}.json",
            "replay_cmd_template": "PYTHONHASHSEED=0 /venv/bin/python -m lmc.run --replay {path}",
            "engine": "lmc",
            "level_claimed": {"category": level, "text": text, "design_ref": f"DESIGN.md section 3, {pid}"},
            "level_note": note,
            "technique": technique,
        })
    na = [{"property_id": p, "reason": NOT_APPLICABLE.get(p, "check not built yet in this round (planned, see DESIGN.md section 3)")}
          for p in props if p not in CHECKS]
    man = {
        "version": 1,
        "setup_cmd": "cd /verif && /venv/bin/python -m compileall -q lmc && PYTHONHASHSEED=0 /venv/bin/python -m lmc.selfcheck",
        "hooks": {
            "guard": "LEASPY_VERIF",
            "enable": "no in-repository hooks: all seams (torch.randn/rand, random.shuffle, scipy minimize, hash order) are owned from the harness by patching module attributes; LEASPY_VERIF=1 is exported by lmc.run for documentation only",
            "baseline_off_cmd": "cd /repo && /venv/bin/python -m pytest -ra -q -p no:cacheprovider --timeout=900 --continue-on-collection-errors",
            "source_commits": [],
            "add_only": True,
        },
        "engines": [
            {"name": "lmc", "path": "/verif/lmc", "serves_properties": sorted(CHECKS),
             "kind_free_text": "hand-written explicit-state / bounded-exhaustive explorer for Python: E-HIST (BFS over operation histories on real objects), E-ENV (deviation-bounded scripts of environment answers through RNG seams), E-GRID (complete enumeration of small structured input domains against reference models)"},
        ],
        "checks": checks,
        "not_applicable": na,
        "notes": "fix: commits in /repo and known findings are listed in /verif/known_findings.json; see DESIGN.md.",
    }
    Path("/verif/MANIFEST.json").write_text(json.dumps(man, indent=1))
    import jsonschema
    jsonschema.validate(man, json.load(open("/root/.vp/MANIFEST.schema.json")))
    print("MANIFEST ok:", len(checks), "checks,", len(na), "not claimed")

main()

"""C06 / D19: the Bernoulli observation model evaluates the number stored at a MASKED entry before discarding it.

`StatelessDistributionFamilyFromTorchDistribution._nll` calls `Bernoulli(probs).log_prob(x.value)` on the raw values;
torch validates the support of every element, so any number outside {0, 1} sitting under the mask (a missing entry or
a padded visit; the loader writes 0 there) raises ValueError instead of being ignored.  Gaussian models ignore it.
Exit status 1 when the defect is present.
"""
import sys, warnings
warnings.filterwarnings("ignore")
import pandas as pd, torch
from leaspy.io.data import Data, Dataset
from leaspy.models import BaseModel

df = pd.DataFrame([["a", 62.0, 0.0, 0.0], ["b", 70.0, 1.0, 0.0], ["b", 72.0, None, 1.0]], columns=["ID", "TIME", "Y0", "Y1"])
model = BaseModel.load({"leaspy_version": "2.0.0", "name": "logistic", "features": ["Y0", "Y1"], "dimension": 2,
                        "source_dimension": 0, "obs_models": {"y": "bernoulli"},
                        "parameters": {"log_g_mean": [0.5, 1.0], "log_v0_mean": [-3.0, -2.5], "tau_mean": [70.0],
                                       "tau_std": [5.0], "xi_std": [0.5]}})
bad = 0
for fill in (0.0, 1.0, 7.5, float("nan")):
    dataset = Dataset(Data.from_dataframe(df))
    dataset.values[dataset.mask == 0] = fill          # 'a' has one padded visit, 'b' one missing value
    state = model.state.clone()
    model.put_data_variables(state, dataset)
    state.put_individual_latent_variables("mode", n_individuals=2)
    try:
        print(f"masked entries hold {fill}: nll_attach_ind = {state['nll_attach_ind'].tolist()}")
    except ValueError as e:
        print(f"masked entries hold {fill}: ValueError: {str(e).splitlines()[0][:110]}")
        bad += 1
sys.exit(1 if bad else 0)

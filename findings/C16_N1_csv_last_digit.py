"""C16 (new): save(csv) writes the shortest exact repr of every double, but load(csv) parses it with pandas' default
(fast, not round-trip) float parser: about one double in three comes back changed in its last digit -- among them
float32-origin values such as float(np.float32(0.1)), which is what a personalisation produces.  JSON is exact.
Exit status 1 when the defect is present."""
import os, sys, tempfile
import numpy as np
from leaspy.io.outputs.individual_parameters import IndividualParameters

vals = [float(np.float32(0.1)), 0.1 + 0.2, 1.8675579901499675]
ip = IndividualParameters()
ip.add_individual_parameters("a", {"sources": vals})
d = tempfile.mkdtemp(dir="/var/tmp")
path = os.path.join(d, "ip.csv")
ip.save(path)
back = IndividualParameters.load(path)["a"]["sources"]
print("file:", open(path).read().strip().splitlines()[1])
os.remove(path); os.rmdir(d)
print("sent:", vals)
print("back:", back)
sys.exit(0 if back == vals else 1)

"""C17: a joint model that was just fitted (not saved and re-loaded) cannot be personalised with scipy_minimize unless the
new cohort has as many individuals as the training cohort: the model's state still holds the training cohort's tau / xi,
JointModel.put_individual_parameters re-uses them with the new cohort's index.  Exit status 1 when the defect is present."""
import sys, warnings
import pandas as pd
from leaspy.io.data import Data
from leaspy.models import JointModel

warnings.filterwarnings("ignore")
rows = [("a", 62.0, 0.15, 0.10, 68.0, 0), ("a", 66.5, 0.25, 0.20, 68.0, 0), ("b", 70.0, 0.40, 0.30, 82.5, 1), ("b", 72.0, 0.55, 0.50, 82.5, 1),
        ("c", 75.0, 0.55, 0.65, 76.0, 1), ("c", 75.5, 0.60, 0.70, 76.0, 1)]
df = pd.DataFrame(rows, columns=["ID", "TIME", "Y0", "Y1", "EVENT_TIME", "EVENT_BOOL"])
model = JointModel("joint", nb_events=1, dimension=2, source_dimension=1)
model.fit(Data.from_dataframe(df, "joint"), "mcmc_saem", n_iter=10, seed=0, progress_bar=False)
try:
    ip = model.personalize(Data.from_dataframe(df[df.ID == "b"], "joint"), "scipy_minimize", use_jacobian=False, progress_bar=False)
    print("personalised:", ip._indices)
    sys.exit(0)
except ValueError as e:
    print("scipy_minimize on a freshly fitted joint model: ValueError:", e)
    sys.exit(1)

"""C20: ConstantModel.estimate refuses a single (scalar) time-point although `estimate` documents
"It can be a unique time-point or a list of time-points" (all other models, LME included, accept it).
Exit status 1 when the defect is present.
"""
import sys
import pandas as pd
from leaspy.models import ConstantModel

df = pd.DataFrame([["a", 70.0, 0.1], ["a", 71.0, 0.5]], columns=["ID", "TIME", "A"])
model = ConstantModel("constant")
ip = model.personalize(df, "constant_prediction", prediction_type="last")
print("list request  :", model.estimate({"a": [75.0]}, ip)["a"].tolist())
try:
    print("scalar request:", model.estimate({"a": 75.0}, ip)["a"].tolist())
except TypeError as e:
    print("scalar request: TypeError:", e)
    sys.exit(1)
sys.exit(0)

"""C14: the event layout orders individuals by sorted ID, every other layout by first appearance (sort_index=False).

Exit status 1 when the defect is present.
"""
import sys
import pandas as pd
from leaspy.io.data import Data, Dataset

ev = pd.DataFrame({"ID": ["b", "a"], "EVENT_TIME": [75.0, 70.0], "EVENT_BOOL": [1, 0]})
vis = pd.DataFrame({"ID": ["b", "a"], "TIME": [71.0, 60.0], "Y0": [0.1, 0.2]})
order_event = Dataset(Data.from_dataframe(ev, "event")).indices
order_visit = Dataset(Data.from_dataframe(vis, "visit")).indices
order_joint = Dataset(Data.from_dataframe(vis.merge(ev, on="ID"), "joint")).indices
print("visit:", order_visit, "joint:", order_joint, "event:", order_event)
sys.exit(0 if order_event == ["b", "a"] else 1)

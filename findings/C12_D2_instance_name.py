"""C12 / D2: save() writes the *instance* name in the "name" field, load() reads that field as the model *kind*.
A model whose instance name is not exactly its kind cannot be reloaded from its own file ('my-model': ValueError;
another kind's name: another class is instantiated), and 'Logistic' comes back renamed 'logistic'."""
import os, sys, tempfile, warnings
warnings.simplefilter("ignore")
import pandas as pd
from leaspy.models import BaseModel, LogisticModel

df = pd.DataFrame({"ID": list("aabbccdd"), "TIME": [62.0, 66.5, 70.0, 72.0, 75.0, 79.0, 58.0, 69.0],
                   "Y0": [0.15, 0.25, 0.40, 0.55, 0.55, 0.70, 0.05, 0.30]}).set_index(["ID", "TIME"])
tmp = tempfile.mkdtemp(dir="/var/tmp")
bad = 0
for name in ("logistic", "my-model", "linear", "Logistic"):
    model = LogisticModel(name, dimension=1)
    model.fit(df, "mcmc_saem", seed=0, n_iter=3, progress_bar=False)
    path = os.path.join(tmp, "model.json")
    model.save(path)
    try:
        again = BaseModel.load(path)
        if again.name != name:
            print(f"DEFECT: LogisticModel({name!r}) comes back as {type(again).__name__}({again.name!r})"); bad = 1
    except Exception as e:
        print(f"DEFECT: LogisticModel({name!r}) saved, then BaseModel.load raised {type(e).__name__}: {e}"); bad = 1
    os.remove(path)
os.rmdir(tmp)
sys.exit(bad)

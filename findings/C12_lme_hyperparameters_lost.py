"""C12: LMEModel(with_random_slope_age=False) -> fit -> save -> BaseModel.load comes back with
with_random_slope_age=True: the flag is a constructor hyperparameter but LMEModel.hyperparameters is {} and
to_dict() writes it nowhere, so load() rebuilds the model with the default.  The reloaded model then personalises
with a random slope (other individual parameters, other estimates) on parameters fitted without one."""
import os, sys, tempfile, warnings
warnings.simplefilter("ignore")
import numpy as np, pandas as pd
from leaspy.io.data import Data
from leaspy.models import BaseModel, LMEModel

rows = [(f"s{i}", float(60 + 3 * j + i), 0.1 * i + 0.02 * j * (1 + 0.3 * i) + 0.01 * ((i * j) % 3)) for i in range(6) for j in range(4)]
data = Data.from_dataframe(pd.DataFrame(rows, columns=["ID", "TIME", "Y"]))
model = LMEModel("lme", with_random_slope_age=False)
model.fit(data, "lme_fit")
tmp = tempfile.mkdtemp(dir="/var/tmp")
path = os.path.join(tmp, "lme.json")
model.save(path)
again = BaseModel.load(path)
os.remove(path); os.rmdir(tmp)
before = model.estimate({"s1": [61.0, 90.0]}, model.personalize(data, "lme_personalize"))["s1"].ravel()
after = again.estimate({"s1": [61.0, 90.0]}, again.personalize(data, "lme_personalize"))["s1"].ravel()
print("with_random_slope_age:", model.with_random_slope_age, "->", again.with_random_slope_age)
print("estimates for s1     :", before, "->", after)
if again.with_random_slope_age != model.with_random_slope_age or not np.allclose(before, after):
    print("DEFECT: the reloaded LME model is not the model that was saved")
    sys.exit(1)
sys.exit(0)

"""C18 / D12: a visit table whose ID column holds integers (accepted by Data ingestion everywhere else) passes the validation
and is refused in the middle of the run with LeaspyIndividualParamsInputError (the sampled parameters are indexed by str(ID),
the visit ages by the raw ID).
Exit status 1 when the defect is present.
"""
import sys
import pandas as pd
from leaspy.models import BaseModel


def logistic(ns=1, noise="gaussian-diagonal", std=(0.1, 0.2)):
    p = {"log_g_mean": [0.5, 1.0], "log_v0_mean": [-3.0, -2.5], "tau_mean": [70.0], "tau_std": [5.0], "xi_std": [0.5],
         "noise_std": list(std) if noise == "gaussian-diagonal" else [std[0]]}
    if ns:
        p["betas_mean"] = [[0.1] * ns]
    return BaseModel.load({"leaspy_version": "2.0.0", "name": "logistic", "features": ["Y0", "Y1"], "dimension": 2,
                           "source_dimension": ns, "obs_models": {"y": noise}, "parameters": p})


DESIGN = {"visit_type": "random", "patient_number": 3, "first_visit_mean": 0.0, "first_visit_std": 0.4,
          "time_follow_up_mean": 3, "time_follow_up_std": 0.5, "distance_visit_mean": 0.5, "distance_visit_std": 0.2}


table = pd.DataFrame({"ID": [2, 2, 10], "TIME": [70.0, 71.0, 72.0]})
try:
    res = logistic().simulate(algorithm="simulate", seed=0, features=["Y0", "Y1"],
                              visit_parameters={"visit_type": "dataframe", "df_visits": table})
    print("completed, individuals:", list(res.data.individuals))
except Exception as e:
    print(f"DEFECT: integer identifiers: {type(e).__name__}: {e}")
    sys.exit(1)
sys.exit(0)

"""C11 / D10: turning console logging on without an output folder aborts the fit.
`fit(..., print_periodicity=N)` (AlgorithmSettings.set_logs' own documented option; no `path`, no `save_periodicity`)
builds a FitOutputManager without `path_output`, and FitOutputManager.iteration reads that attribute first:
AttributeError at the first iteration.  Same for plot_patient_periodicity / plot_sourcewise / nb_of_patients_to_plot alone."""
import sys, warnings
warnings.simplefilter("ignore")
import pandas as pd
from leaspy.models import LogisticModel

df = pd.DataFrame({"ID": list("aabbccdd"), "TIME": [62.0, 66.5, 70.0, 72.0, 75.0, 79.0, 58.0, 69.0],
                   "Y0": [0.15, 0.25, 0.40, 0.55, 0.55, 0.70, 0.05, 0.30], "Y1": [0.10, 0.20, 0.30, 0.50, 0.65, 0.70, 0.10, 0.22]})
bad = 0
for option in ({"print_periodicity": 2}, {"plot_patient_periodicity": 2}, {"plot_sourcewise": True}):
    model = LogisticModel("logistic", source_dimension=1)
    try:
        model.fit(df, "mcmc_saem", seed=0, n_iter=4, progress_bar=False, **option)
        print("ok:", option)
    except AttributeError as e:
        print("DEFECT: fit(...,", option, ") raised", repr(e)); bad = 1
sys.exit(bad)

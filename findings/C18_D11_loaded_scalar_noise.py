"""C18 / D11: simulation with a scalar-noise logistic model read from a file / dict fails (noise_std has shape (1,) after
load and is compared element-wise with a Series); the same model freshly fitted (0-d noise_std) works.
Exit status 1 when the defect is present.
"""
import sys
import pandas as pd
from leaspy.models import BaseModel


def logistic(ns=1, noise="gaussian-diagonal", std=(0.1, 0.2)):
    p = {"log_g_mean": [0.5, 1.0], "log_v0_mean": [-3.0, -2.5], "tau_mean": [70.0], "tau_std": [5.0], "xi_std": [0.5],
         "noise_std": list(std) if noise == "gaussian-diagonal" else [std[0]]}
    if ns:
        p["betas_mean"] = [[0.1] * ns]
    return BaseModel.load({"leaspy_version": "2.0.0", "name": "logistic", "features": ["Y0", "Y1"], "dimension": 2,
                           "source_dimension": ns, "obs_models": {"y": noise}, "parameters": p})


DESIGN = {"visit_type": "random", "patient_number": 3, "first_visit_mean": 0.0, "first_visit_std": 0.4,
          "time_follow_up_mean": 3, "time_follow_up_std": 0.5, "distance_visit_mean": 0.5, "distance_visit_std": 0.2}


try:
    res = logistic(noise="gaussian-scalar").simulate(algorithm="simulate", seed=0, features=["Y0", "Y1"], visit_parameters=dict(DESIGN))
    print("completed,", len(res.data.to_dataframe()), "visits")
except ValueError as e:
    print("DEFECT: loaded scalar-noise model cannot be simulated: ValueError:", e)
    sys.exit(1)
sys.exit(0)

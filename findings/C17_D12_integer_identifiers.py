"""C17 / D12: integer identifiers are accepted by ingestion (documented: 'string, integer or categories')
but every personalisation algorithm of the MCMC-SAEM models fails on them."""
import sys, warnings
import pandas as pd
from leaspy.io.data import Data
from leaspy.models import LogisticModel

warnings.filterwarnings("ignore")
df = pd.DataFrame({"ID": [10, 10, 9, 9], "TIME": [62.0, 66.5, 70.0, 72.0], "Y0": [0.15, 0.25, 0.4, 0.5], "Y1": [0.1, 0.2, 0.3, 0.5]})
model = LogisticModel("logistic", source_dimension=1)
model.fit(Data.from_dataframe(df), "mcmc_saem", n_iter=5, seed=0, progress_bar=False)  # ingestion and fit accept the table
failures = []
for algo, kw in (("scipy_minimize", {"use_jacobian": False}), ("mean_posterior", {"n_iter": 4}), ("mode_posterior", {"n_iter": 4})):
    try:
        ip = model.personalize(Data.from_dataframe(df), algo, seed=0, progress_bar=False, **kw)
        assert [str(i) for i in ip._indices] == ["10", "9"], ip._indices
    except Exception as e:
        failures.append(f"{algo}: {type(e).__name__}: {e}")
print("\n".join(failures) or "integer identifiers personalised")
sys.exit(1 if failures else 0)

"""C14: a negative event indicator is not refused: IndexError (one event type) or silently read as an observed event.

Exit status 1 when the defect is present.
"""
import sys
import pandas as pd
from leaspy.exceptions import LeaspyDataInputError
from leaspy.io.data import Data, Dataset

bad = 0
for name, ind in (("one event type", [1, -1, 0]), ("two event types", [2, -1, 0])):
    df = pd.DataFrame({"ID": ["a", "b", "c"], "EVENT_TIME": [70.0, 75.0, 80.0], "EVENT_BOOL": ind})
    try:
        ds = Dataset(Data.from_dataframe(df, "event"))
        print(name, ": accepted; individual 'b' (indicator -1) stored as", ds.event_bool[1].tolist())
        bad = 1
    except LeaspyDataInputError as e:
        print(name, ": refused with the data-input error: OK --", e)
    except Exception as e:
        print(name, ": ", type(e).__name__, "--", e)
        bad = 1
sys.exit(bad)

"""F47 / F48 (C20): the benchmark models cannot use individual parameters that went through a file.

`lme_personalize` / `constant_prediction` return scalar values; `IndividualParameters.save` + `load` gives them back as Python floats
(JSON) or one-element lists (CSV).  `LMEModel.compute_individual_trajectory` calls `.item()` on them (AttributeError), and
`ConstantModel.compute_individual_trajectory` nests the one-element lists, so that `estimate` returns an array of shape
(n_timepoints, n_features, 1) instead of (n_timepoints, n_features).
Exit status 1 when the defect is present, 0 otherwise.  Public API only.
"""
import os
import sys
import tempfile
import warnings

import numpy as np
import pandas as pd

warnings.filterwarnings("ignore")
import leaspy.models  # noqa: E402,F401
from leaspy.io.data import Data  # noqa: E402
from leaspy.io.outputs import IndividualParameters  # noqa: E402
from leaspy.models import ConstantModel, LMEModel  # noqa: E402

rows = [(f"s{i}", 60.0 + 2.5 * j + i, 0.2 + 0.05 * i + 0.03 * j * (1 + 0.3 * i)) for i in range(5) for j in range(4)]
df = pd.DataFrame(rows, columns=["ID", "TIME", "Y"])
problems = []
for label, build in (("lme", lambda: LMEModel("lme")), ("constant", lambda: ConstantModel("constant"))):
    model = build()
    data = Data.from_dataframe(df)
    if label == "lme":
        model.fit(data, "lme_fit")
        ip = model.personalize(data, "lme_personalize")
    else:
        ip = model.personalize(data, "constant_prediction", prediction_type="last")
    request = {"s1": [61.0, 70.5], "s3": [66.0, 80.0]}
    reference = model.estimate(request, ip)
    with tempfile.TemporaryDirectory() as tmp:
        for ext in ("json", "csv"):
            path = os.path.join(tmp, "ip." + ext)
            ip.save(path)
            try:
                again = model.estimate(request, IndividualParameters.load(path))
            except Exception as e:
                problems.append(f"{label}: estimate with individual parameters read back from {ext}: {type(e).__name__}: {e}")
                continue
            for k in request:
                a, b = np.asarray(reference[k]), np.asarray(again[k])
                if a.shape != b.shape or not np.allclose(a, b, rtol=1e-6, atol=1e-7):
                    problems.append(f"{label}: estimate of {k} from {ext}: shape {b.shape} / values differ (expected shape {a.shape})")
                    break
for p in problems:
    print("DEFECT:", p)
sys.exit(1 if problems else 0)

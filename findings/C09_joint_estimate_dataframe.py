"""C09: the joint model cannot return estimates as a DataFrame (MultiIndex request or to_dataframe=True):
its trajectories have dimension + nb_events columns but estimate() labels them with the features only."""
import sys
import pandas as pd
from leaspy.io.outputs import IndividualParameters
from leaspy.models import BaseModel

model = BaseModel.load({
    "leaspy_version": "2.0.0", "name": "joint", "features": ["Y0"], "dimension": 1, "source_dimension": 0,
    "nb_events": 1, "obs_models": {"y": "gaussian-scalar", "event": "weibull-right-censored"},
    "parameters": {"log_g_mean": [0.5], "log_v0_mean": [-3.0], "tau_mean": [70.0], "tau_std": [5.0], "xi_std": [0.5],
                   "noise_std": [0.1], "log_rho_mean": [0.6], "n_log_nu_mean": [-1.8]}})
ip = IndividualParameters()
ip.add_individual_parameters("a", {"xi": 0.0, "tau": 70.0})
print("dict output:", model.estimate({"a": [70.0, 72.0]}, ip))  # works: (2, 2) array = feature + survival
index = pd.MultiIndex.from_tuples([("a", 70.0), ("a", 72.0)], names=["ID", "TIME"])
try:
    print(model.estimate(index, ip))  # the form used in docs/models_evaluation.md
except ValueError as e:
    print("DEFECT: estimate(MultiIndex) on a joint model raised", repr(e))
    sys.exit(1)
sys.exit(0)

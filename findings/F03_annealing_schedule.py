"""F03 (C19): annealing configurations accepted by the settings that do not run or do not end at temperature 1.

(a) fewer annealing iterations than plateaus (the defaults with n_iter=10: 5 // 9 == 0) -> ZeroDivisionError
(b) 0 annealing iterations (int(0.5 * 1)) -> temperature stays at the initial value for the whole run
(c) linear decrease leaves a rounding residue: temperature ends at 1.0000000000000002 instead of 1
Exit status 1 when any is present.
"""
import sys, warnings
warnings.filterwarnings("ignore")
import leaspy.models  # noqa
from leaspy.algo import AlgorithmSettings
from leaspy.algo.base import algorithm_factory

def trace(total_iter, **annealing):
    n_iter = total_iter
    algo = algorithm_factory(AlgorithmSettings("mcmc_saem", n_iter=n_iter, progress_bar=False, seed=0,
                                               annealing=dict(do_annealing=True, **annealing)))
    algo._initialize_annealing()
    out = [algo.temperature]
    for k in range(1, n_iter + 1):
        algo.current_iteration = k
        algo._update_temperature()
        out.append(algo.temperature)
    return out

bad = 0
try:
    print("(a)", trace(10))                      # defaults: 10 plateaus, 50% of 10 iterations
except ZeroDivisionError as e:
    print("(a) ZeroDivisionError:", e); bad += 1
t = trace(1, initial_temperature=3, n_plateau=4); print("(b)", t); bad += t[-1] != 1.0
t = trace(3, initial_temperature=1.1, n_plateau=4, n_iter_frac=1.0); print("(c)", t); bad += t[-1] != 1.0
sys.exit(1 if bad else 0)

"""C16 (new): identifiers that pandas treats as missing-value markers ("NA", "nan", "null", "None", "") are accepted
by the container and written to CSV, but load(csv) reads them back as float NaN and refuses its own file.
JSON round-trips them.  Exit status 1 when the defect is present."""
import os, sys, tempfile
from leaspy.io.outputs.individual_parameters import IndividualParameters

ip = IndividualParameters()
for k, i in enumerate(["NA", "b", "null"]):
    ip.add_individual_parameters(i, {"xi": [0.5 * k], "tau": [70.0 + k]})
d = tempfile.mkdtemp(dir="/var/tmp")
path = os.path.join(d, "ip.csv")
ip.save(path)
try:
    ids = IndividualParameters.load(path)._indices
    print("read back:", ids)
    rc = 0 if ids == ["NA", "b", "null"] else 1
except Exception as e:
    print("load(csv) failed:", type(e).__name__, e)
    rc = 1
os.remove(path); os.rmdir(d)
sys.exit(rc)

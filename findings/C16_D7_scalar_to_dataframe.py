"""C16 / D7: a container holding scalar-shaped parameters (the form of the class's own docstring examples)
cannot be converted to a table (nor saved as CSV): IndexError in to_dataframe.
Exit status 1 when the defect is present."""
import sys
from leaspy.io.outputs.individual_parameters import IndividualParameters

ip = IndividualParameters()
ip.add_individual_parameters("index-1", {"xi": 0.1, "tau": 70, "sources": [0.1, -0.3]})  # docstring example
try:
    df = ip.to_dataframe()
except IndexError as e:
    print("to_dataframe raised IndexError:", e)
    sys.exit(1)
back = IndividualParameters.from_dataframe(df)
print(df, back["index-1"])
p = back["index-1"]
sys.exit(0 if p["sources"] == [0.1, -0.3] and p["xi"] in (0.1, [0.1]) and p["tau"] in (70, [70]) else 1)

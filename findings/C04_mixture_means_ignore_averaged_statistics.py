"""C04, mixture model: after the memory-less phase the cluster means (tau_mean, xi_mean, sources_mean) are recomputed from
the CURRENT latent values (state[...]) instead of the averaged sufficient statistics handed to update_parameters: two
different statistics give bit-identical means (tau_std, which does use the statistics, differs).
Exit status 1 when the defect is present, 0 otherwise."""
import json, sys, pandas as pd, torch
import leaspy.models  # noqa: F401
from leaspy.io.data import Data, Dataset
from leaspy.models import BaseModel

d = json.load(open("/repo/tests/_data/model_parameters/hardcoded/mixture.json")); d.pop("fit_metrics", None)
model = BaseModel.load(d)
df = pd.DataFrame({"ID": ["a", "a", "b", "c"], "TIME": [62.0, 66.5, 70.0, 58.0], "Y0": [0.15, 0.25, 0.40, 0.05],
                   "Y1": [0.10, 0.20, 0.30, 0.12], "Y2": [0.30, 0.35, 0.45, 0.10], "Y3": [0.22, 0.31, 0.38, 0.08]})
state = model.state.clone()
model.put_data_variables(state, Dataset(Data.from_dataframe(df)))
lat = lambda tau, xi: pd.DataFrame({"tau": tau, "xi": xi, "sources_0": [0.5, -1.0, 0.3], "sources_1": [-0.2, 0.7, 1.1]})
state.put_individual_latent_variables(df=lat([75.0, 79.5, 71.0], [-0.3, 0.9, 0.5]))   # previous iteration
s_prev = model.compute_sufficient_statistics(state)
state.put_individual_latent_variables(df=lat([64.0, 73.5, 69.25], [0.4, -0.7, 0.1]))  # current iteration
s_cur = model.compute_sufficient_statistics(state)
averaged = {k: 0.5 * s_prev[k] + 0.5 * s_cur[k] for k in s_cur}                        # what the algorithm holds with memory
a, b = state.clone(), state.clone()
model.update_parameters(a, averaged, burn_in=False)
model.update_parameters(b, s_cur, burn_in=False)
print("statistics S[tau]: averaged", averaged["tau"].reshape(-1).tolist(), "current", s_cur["tau"].reshape(-1).tolist())
print("tau_mean from averaged statistics", a["tau_mean"].tolist(), "from current statistics", b["tau_mean"].tolist())
print("tau_std  from averaged statistics", a["tau_std"].tolist(), "from current statistics", b["tau_std"].tolist())
sys.exit(1 if torch.equal(a["tau_mean"], b["tau_mean"]) and not torch.equal(a["tau_std"], b["tau_std"]) else 0)

"""F02 (C02, also C01): a per-individual rejection does not restore the rejected individual when the proposal
(or anything derived from it) is non-finite: `old * mask + current * ~mask` turns inf/NaN * 0 into NaN.

(a) NaN proposal for individual 0 only, rejected for individual 0 -> its xi stays NaN instead of the old value
(b) xi + 200 (exp overflows) for individual 1, values read, rejected -> cached derived values of individual 1 are NaN
Exit status 1 when the defect is present.
"""
import sys, warnings
warnings.filterwarnings("ignore")
import torch
import leaspy.models  # noqa
from leaspy.variables.dag import VariablesDAG
from leaspy.variables.specs import DataVariable, LinkedVariable
from leaspy.variables.state import State, StateForkType

dag = VariablesDAG.from_dict({"xi": DataVariable(), "alpha": LinkedVariable(lambda *, xi: torch.exp(xi))})
bad = 0
# (a)
s = State(dag, auto_fork_type=StateForkType.REF)
s["xi"] = torch.tensor([[0.0], [0.5]])
s.put("xi", torch.tensor([[float("nan")], [0.1]]), accumulate=True)
s.revert(torch.tensor([True, False]))       # individual 0 rejected, individual 1 accepted
print("(a) xi after rejection of individual 0:", s["xi"].tolist(), "expected [[0.0], [0.6]]")
bad += not torch.allclose(s["xi"], torch.tensor([[0.0], [0.6]]), equal_nan=False)
# (b)
s = State(dag, auto_fork_type=StateForkType.REF)
s["xi"] = torch.tensor([[0.0], [0.5]])
s["alpha"]
s.put("xi", torch.tensor([[0.1], [200.0]]), accumulate=True)
s["alpha"]                                   # inf for individual 1
s.revert(torch.tensor([False, True]))        # individual 1 rejected
print("(b) alpha after rejection of individual 1:", s["alpha"].tolist(), "expected", torch.exp(s["xi"]).tolist())
bad += not torch.equal(s["alpha"], torch.exp(s["xi"]))
sys.exit(1 if bad else 0)

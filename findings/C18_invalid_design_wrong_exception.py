"""C18: designs violating the documented requirements are refused, but not with the documented LeaspyAlgoInputError:
the parameters are read (_set_param_study) before they are validated -> KeyError / AttributeError / TypeError, and _check_params goes on
comparing a value whose type it has just found wrong -> TypeError. ('Missing parameters' / 'Type problems' messages are dead code.)
Exit status 1 when the defect is present.
"""
import sys
import pandas as pd
from leaspy.models import BaseModel


def logistic(ns=1, noise="gaussian-diagonal", std=(0.1, 0.2)):
    p = {"log_g_mean": [0.5, 1.0], "log_v0_mean": [-3.0, -2.5], "tau_mean": [70.0], "tau_std": [5.0], "xi_std": [0.5],
         "noise_std": list(std) if noise == "gaussian-diagonal" else [std[0]]}
    if ns:
        p["betas_mean"] = [[0.1] * ns]
    return BaseModel.load({"leaspy_version": "2.0.0", "name": "logistic", "features": ["Y0", "Y1"], "dimension": 2,
                           "source_dimension": ns, "obs_models": {"y": noise}, "parameters": p})


DESIGN = {"visit_type": "random", "patient_number": 3, "first_visit_mean": 0.0, "first_visit_std": 0.4,
          "time_follow_up_mean": 3, "time_follow_up_std": 0.5, "distance_visit_mean": 0.5, "distance_visit_std": 0.2}


from leaspy.exceptions import LeaspyAlgoInputError

table = pd.DataFrame({"ID": ["a", "a", "b"], "TIME": [70.0, 71.0, 72.0]})
cases = {
    "missing key patient_number": {k: v for k, v in DESIGN.items() if k != "patient_number"},
    "missing key visit_type": {k: v for k, v in DESIGN.items() if k != "visit_type"},
    "patient_number given as str": dict(DESIGN, patient_number="3"),
    "first_visit_std None": dict(DESIGN, first_visit_std=None),
    "min_spacing_between_visits given as str": dict(DESIGN, min_spacing_between_visits="1"),
    "visit_parameters None": None,
    "table without ID column": {"visit_type": "dataframe", "df_visits": table[["TIME"]]},
    "df_visits is a dict": {"visit_type": "dataframe", "df_visits": {"ID": ["a"], "TIME": [70.0]}},
}
bad = 0
for name, vp in cases.items():
    try:
        logistic().simulate(algorithm="simulate", seed=0, features=["Y0", "Y1"], visit_parameters=vp)
        print(name, "-> accepted")
        bad = 1
    except LeaspyAlgoInputError:
        print(name, "-> LeaspyAlgoInputError (as documented)")
    except Exception as e:
        print(f"DEFECT: {name} -> {type(e).__name__}: {str(e)[:70]}")
        bad = 1
sys.exit(bad)

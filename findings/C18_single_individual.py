"""C18: patient_number=1 (a 'positive integer') or a visit table with a single individual fails with a model that has sources:
the sampled sources are standardised with the sample standard deviation of ONE value (NaN), the NaN trajectory reaches
scipy.stats.beta.rvs -> ValueError 'Domain error in arguments'.
Exit status 1 when the defect is present.
"""
import sys
import pandas as pd
from leaspy.models import BaseModel


def logistic(ns=1, noise="gaussian-diagonal", std=(0.1, 0.2)):
    p = {"log_g_mean": [0.5, 1.0], "log_v0_mean": [-3.0, -2.5], "tau_mean": [70.0], "tau_std": [5.0], "xi_std": [0.5],
         "noise_std": list(std) if noise == "gaussian-diagonal" else [std[0]]}
    if ns:
        p["betas_mean"] = [[0.1] * ns]
    return BaseModel.load({"leaspy_version": "2.0.0", "name": "logistic", "features": ["Y0", "Y1"], "dimension": 2,
                           "source_dimension": ns, "obs_models": {"y": noise}, "parameters": p})


DESIGN = {"visit_type": "random", "patient_number": 3, "first_visit_mean": 0.0, "first_visit_std": 0.4,
          "time_follow_up_mean": 3, "time_follow_up_std": 0.5, "distance_visit_mean": 0.5, "distance_visit_std": 0.2}


bad = 0
for name, vp in (("patient_number=1", dict(DESIGN, patient_number=1)),
                 ("one-individual table", {"visit_type": "dataframe", "df_visits": pd.DataFrame({"ID": ["a", "a"], "TIME": [70.0, 71.0]})})):
    try:
        res = logistic().simulate(algorithm="simulate", seed=0, features=["Y0", "Y1"], visit_parameters=vp)
        print(name, "-> completed,", len(res.data.to_dataframe()), "visits")
    except ValueError as e:
        print(f"DEFECT: {name}: ValueError: {str(e)[:80]}")
        bad = 1
sys.exit(bad)

"""D3 (C04): with a scalar noise level and an entry missing at a real visit, the maximisation step stores
sqrt((sum_obs y^2 - 2 sum_obs y.model + sum_ALL model^2) / n_obs): model values at unobserved entries are counted.
Exit status 1 when the defect is present (noise_std != leaspy's own RMSE over observed entries), 0 otherwise."""
import sys, pandas as pd
import leaspy.models  # noqa: F401
from leaspy.io.data import Data, Dataset
from leaspy.models import BaseModel
from leaspy.models.obs_models import FullGaussianObservationModel

nan = float("nan")
df = pd.DataFrame({"ID": ["a", "a", "b", "b"], "TIME": [62.0, 66.5, 70.0, 74.5],
                   "Y0": [0.15, 0.25, 0.40, 0.48], "Y1": [0.10, 0.20, 0.30, nan]})  # one entry missing at a real visit
model = BaseModel.load({"leaspy_version": "2.0.0", "name": "logistic", "features": ["Y0", "Y1"], "dimension": 2,
                        "source_dimension": 0, "obs_models": {"y": "gaussian-scalar"},
                        "parameters": {"log_g_mean": [0.5, 1.0], "log_v0_mean": [-3.0, -2.5], "tau_mean": [70.0],
                                       "tau_std": [5.0], "xi_std": [0.5], "noise_std": [0.1]}})
state = model.state.clone()
model.put_data_variables(state, Dataset(Data.from_dataframe(df)))
state.put_individual_latent_variables("mode", n_individuals=2)
model.update_parameters(state, model.compute_sufficient_statistics(state), burn_in=True)
rmse = FullGaussianObservationModel.compute_rmse(y=state["y"], model=state["model"])
print(f"noise_std after the maximisation step = {float(state['noise_std']):.6f}; RMSE over the 7 observed entries = {float(rmse):.6f}")
sys.exit(0 if abs(float(state["noise_std"]) - float(rmse)) < 1e-5 else 1)

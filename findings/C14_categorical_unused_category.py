"""C14: categorical IDs (a documented ID type) with a category that has no row -- left by a filter, or because the
reader itself dropped an individual whose visits hold no value: phantom individuals without any visit (visit
layout, Dataset(data) then fails), or a valid table refused (event / joint / covariate layouts).

Exit status 1 when the defect is present.
"""
import sys
import pandas as pd
from leaspy.io.data import Data, Dataset

nan = float("nan")
full = pd.DataFrame({"ID": pd.Categorical(["b", "a", "b", "z"]), "TIME": [71.0, 60.0, 70.0, 50.0], "Y0": [0.1, 0.2, 0.3, nan]})
bad = False
for name, df in (("'z' has no value", full), ("'z' filtered out", full[full["ID"] != "z"])):
    data = Data.from_dataframe(df)  # expected individuals: b, a
    print(name, "-> individuals:", list(data.individuals), "| visits of 'z':", data["z"].timepoints if "z" in data else "-")
    bad |= list(data.individuals) != ["b", "a"]
    try:
        Dataset(data)
    except Exception as e:
        print("   Dataset(data):", type(e).__name__, e)
        bad = True
try:
    Data.from_dataframe(full[full["ID"] != "z"].assign(EVENT_TIME=[80.0, 75.0, 80.0], EVENT_BOOL=[1, 0, 1]), "joint")
except Exception as e:
    print("joint layout, 'z' filtered out:", type(e).__name__, e)
    bad = True
sys.exit(1 if bad else 0)

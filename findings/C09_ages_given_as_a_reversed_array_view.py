"""F49 (C09): estimate() with the ages of an individual given as a numpy view with negative strides (e.g. `grid[::-1]`).
Exit 1 when the defect is present (ValueError instead of the trajectory at the requested ages), 0 otherwise."""
import sys
import warnings

import numpy as np

warnings.simplefilter("ignore")
import leaspy.models  # noqa: E402,F401
from leaspy.io.outputs import IndividualParameters  # noqa: E402
from leaspy.models import BaseModel  # noqa: E402

model = BaseModel.load({
    "leaspy_version": "2.0.0", "name": "logistic", "features": ["Y0"], "dimension": 1, "source_dimension": 0,
    "obs_models": {"y": "gaussian-scalar"},
    "parameters": {"log_g_mean": [0.5], "log_v0_mean": [-3.0], "tau_mean": 70.0, "tau_std": 5.0, "xi_std": 0.5, "noise_std": 0.1},
})
ip = IndividualParameters()
ip.add_individual_parameters("a", {"xi": 0.1, "tau": 70.0})
grid = np.array([60.0, 70.0, 80.0])
forward = model.estimate({"a": grid}, ip)["a"][:, 0]
try:
    backward = model.estimate({"a": grid[::-1]}, ip)["a"][:, 0]
except ValueError as e:
    print("DEFECT: estimate({'a': grid[::-1]}) raises ValueError:", str(e)[:120])
    sys.exit(1)
if not np.array_equal(backward, forward[::-1]):
    print("DEFECT: values are not those of the requested ages in the requested order", forward, backward)
    sys.exit(1)
print("ok", backward)

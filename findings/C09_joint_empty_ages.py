"""C09: an empty list of ages gives an empty (0, n_features) array for the logistic / linear / shared-speed models
but a RuntimeError (min() of an empty tensor in the survival correction) for the joint model."""
import sys
from leaspy.io.outputs import IndividualParameters
from leaspy.models import BaseModel

model = BaseModel.load({
    "leaspy_version": "2.0.0", "name": "joint", "features": ["Y0"], "dimension": 1, "source_dimension": 0,
    "nb_events": 1, "obs_models": {"y": "gaussian-scalar", "event": "weibull-right-censored"},
    "parameters": {"log_g_mean": [0.5], "log_v0_mean": [-3.0], "tau_mean": [70.0], "tau_std": [5.0], "xi_std": [0.5],
                   "noise_std": [0.1], "log_rho_mean": [0.6], "n_log_nu_mean": [-1.8]}})
ip = IndividualParameters()
ip.add_individual_parameters("a", {"xi": 0.0, "tau": 70.0})
ip.add_individual_parameters("b", {"xi": 0.1, "tau": 71.0})
try:
    print(model.estimate({"a": [70.0], "b": []}, ip))
except RuntimeError as e:
    print("DEFECT: estimate with an empty age list on a joint model raised", repr(e))
    sys.exit(1)
sys.exit(0)

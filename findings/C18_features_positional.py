"""C18: the requested feature list is used positionally. In another order than the model's, the column named Y1 silently holds
the trajectory of Y0 (and its noise level); a strict subset of the model's features ('the name of the outcomes to simulate',
docs/algorithms.md) crashes with ValueError 'Shape of passed values'. Noise is made tiny so that columns can be recognised.
Exit status 1 when the defect is present.
"""
import sys
import pandas as pd
from leaspy.models import BaseModel


def logistic(ns=1, noise="gaussian-diagonal", std=(0.1, 0.2)):
    p = {"log_g_mean": [0.5, 1.0], "log_v0_mean": [-3.0, -2.5], "tau_mean": [70.0], "tau_std": [5.0], "xi_std": [0.5],
         "noise_std": list(std) if noise == "gaussian-diagonal" else [std[0]]}
    if ns:
        p["betas_mean"] = [[0.1] * ns]
    return BaseModel.load({"leaspy_version": "2.0.0", "name": "logistic", "features": ["Y0", "Y1"], "dimension": 2,
                           "source_dimension": ns, "obs_models": {"y": noise}, "parameters": p})


DESIGN = {"visit_type": "random", "patient_number": 3, "first_visit_mean": 0.0, "first_visit_std": 0.4,
          "time_follow_up_mean": 3, "time_follow_up_std": 0.5, "distance_visit_mean": 0.5, "distance_visit_std": 0.2}


import numpy as np

model = logistic(std=(1e-4, 1e-4))
table = pd.DataFrame({"ID": ["a", "a", "b", "b"], "TIME": [60.0, 70.0, 75.0, 80.0]})
vp = {"visit_type": "dataframe", "df_visits": table}
ref = model.simulate(algorithm="simulate", seed=0, features=["Y0", "Y1"], visit_parameters=vp).data.to_dataframe()
bad = 0
swapped = model.simulate(algorithm="simulate", seed=0, features=["Y1", "Y0"], visit_parameters=vp).data.to_dataframe()
if not np.allclose(swapped["Y1"], ref["Y1"], atol=0.01):
    print("DEFECT: features=[Y1, Y0]: column Y1 differs from Y1 of the reference run; equals the reference Y0:",
          bool(np.allclose(swapped["Y1"], ref["Y0"], atol=0.01)))
    bad = 1
try:
    model.simulate(algorithm="simulate", seed=0, features=["Y0"], visit_parameters=vp)
except ValueError as e:
    print("DEFECT: features=[Y0] (subset):", type(e).__name__, e)
    bad = 1
sys.exit(bad)

"""C16 / D21: from_dataframe cuts every column name at its FIRST underscore, so a parameter called `my_p` comes back
as `my`, and two parameters `a_x`, `a_y` are merged into one vector `a` (also through save/load as CSV).
Exit status 1 when the defect is present."""
import sys
from leaspy.io.outputs.individual_parameters import IndividualParameters

ip = IndividualParameters()
ip.add_individual_parameters("a", {"my_p": [0.5], "a_x": [1.0], "a_y": [2.0], "sources": [3.0, 4.0]})
back = IndividualParameters.from_dataframe(ip.to_dataframe())
print("sent:", ip["a"])
print("back:", back["a"])
sys.exit(0 if back["a"] == ip["a"] else 1)

"""C11: asking for the convergence plots (save_periodicity + plot_periodicity, plot_sourcewise left False) aborts the fit
of a joint model with sources: `zeta` has shape (sources, 1 event) so State.save writes it to `zeta.csv` (no column index),
FitOutputManager._extract_parameter_name_and_index returns index None and _set_title_for_parameter computes `index + 1`
-> TypeError at the first plotted iteration.  (With plot_sourcewise=True, or for the logistic model, the run finishes.)"""
import shutil, sys, tempfile, warnings
warnings.simplefilter("ignore")
import matplotlib
matplotlib.use("Agg")
import pandas as pd
from leaspy.io.data import Data
from leaspy.models import JointModel

df = pd.DataFrame({"ID": list("aabbccdd"), "TIME": [62.0, 66.5, 70.0, 72.0, 75.0, 79.0, 58.0, 69.0],
                   "Y0": [0.15, 0.25, 0.40, 0.55, 0.55, 0.70, 0.05, 0.30], "Y1": [0.10, 0.20, 0.30, 0.50, 0.65, 0.70, 0.10, 0.22],
                   "EVENT_TIME": [68.0] * 2 + [82.5] * 2 + [80.0] * 2 + [75.0] * 2, "EVENT_BOOL": [0, 0, 1, 1, 1, 1, 0, 0]})
tmp = tempfile.mkdtemp(dir="/var/tmp")
bad = 0
try:
    model = JointModel("joint", nb_events=1, dimension=2, source_dimension=1)
    model.fit(Data.from_dataframe(df, "joint"), "mcmc_saem", seed=0, n_iter=4, progress_bar=False,
              path=tmp + "/logs", save_periodicity=2, plot_periodicity=2)
    print("ok: the fit with convergence plots finished")
except TypeError as e:
    print("DEFECT: JointModel.fit(..., save_periodicity=2, plot_periodicity=2) raised", repr(e)); bad = 1
finally:
    shutil.rmtree(tmp, ignore_errors=True)
sys.exit(bad)

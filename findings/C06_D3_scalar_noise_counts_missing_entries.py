"""C06 / D3 (shared with C04): the scalar-noise update rule counts the model's value at MISSING entries.

`FullGaussianObservationModel.scalar_noise_std_update` computes (sum y^2 - 2 sum y*model + sum model^2) / n_obs where the
first two sums and n_obs are restricted to observed entries (weights of y) but `sum model^2` runs over every entry of
every real visit.  With one feature missing at a visit where the other one is observed, the estimate is no longer the
RMS residual over the observed entries (the feature-wise "diagonal" rule masks correctly).
Exit status 1 when the defect is present.
"""
import sys, warnings
warnings.filterwarnings("ignore")
import pandas as pd, torch
from leaspy.io.data import Data, Dataset
from leaspy.models import BaseModel

df = pd.DataFrame([["a", 62.0, 0.15, 0.10], ["a", 66.5, 0.25, None], ["b", 70.0, 0.40, 0.30], ["b", 72.0, 0.47, 0.50]],
                  columns=["ID", "TIME", "Y0", "Y1"])
model = BaseModel.load({"leaspy_version": "2.0.0", "name": "logistic", "features": ["Y0", "Y1"], "dimension": 2,
                        "source_dimension": 0, "obs_models": {"y": "gaussian-scalar"},
                        "parameters": {"log_g_mean": [0.5, 1.0], "log_v0_mean": [-3.0, -2.5], "tau_mean": [70.0],
                                       "tau_std": [5.0], "xi_std": [0.5], "noise_std": [0.1]}})
dataset = Dataset(Data.from_dataframe(df))
state = model.state.clone()
model.put_data_variables(state, dataset)
state.put_individual_latent_variables("mode", n_individuals=2)
stats = model.compute_sufficient_statistics(state)
observed = dataset.mask.bool()
residual = dataset.values - state["model"]
rms_observed = residual[observed].pow(2).mean().sqrt().item()
model_at_missing = state["model"][~observed]                      # one entry: Y1 of 'a' at 66.5
rms_counting_missing = ((residual[observed].pow(2).sum() + model_at_missing.pow(2).sum()) / observed.sum()).sqrt().item()
model.update_parameters(state, stats, burn_in=True)
noise = state["noise_std"].item()
print(f"updated noise_std                         : {noise:.6f}")
print(f"RMS residual over the 7 observed entries  : {rms_observed:.6f}   <- expected")
print(f"same + model^2 at the missing entry       : {rms_counting_missing:.6f}")
sys.exit(1 if abs(noise - rms_observed) > 1e-5 else 0)

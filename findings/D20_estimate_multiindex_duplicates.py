"""D20 (C09): estimate() with a MultiIndex holding the same (ID, TIME) twice returns more rows than requested."""
import sys
import pandas as pd
from leaspy.io.outputs import IndividualParameters
from leaspy.models import BaseModel

model = BaseModel.load({
    "leaspy_version": "2.0.0", "name": "logistic", "features": ["Y0"], "dimension": 1, "source_dimension": 0,
    "obs_models": {"y": "gaussian-scalar"},
    "parameters": {"log_g_mean": [0.5], "log_v0_mean": [-3.0], "tau_mean": [70.0], "tau_std": [5.0],
                   "xi_std": [0.5], "noise_std": [0.1]}})
ip = IndividualParameters()
ip.add_individual_parameters("a", {"xi": 0.0, "tau": 70.0})
index = pd.MultiIndex.from_tuples([("a", 70.0), ("a", 66.0), ("a", 70.0)], names=["ID", "TIME"])
as_dict = model.estimate({"a": [70.0, 66.0, 70.0]}, ip, to_dataframe=True)  # 3 rows: repeated ages are fine here
as_index = model.estimate(index, ip)
print(as_index)
bad = len(as_index) != len(index) or not as_index.index.equals(index)
print(f"requested {len(index)} rows, dict form returned {len(as_dict)}, MultiIndex form returned {len(as_index)}")
sys.exit(1 if bad else 0)

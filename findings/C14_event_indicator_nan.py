"""C14 / D13: a missing event indicator is refused with pandas' IntCastingNaNError, not LeaspyDataInputError.

Exit status 1 when the defect is present.
"""
import sys
import pandas as pd
from leaspy.exceptions import LeaspyDataInputError
from leaspy.io.data import Data

df = pd.DataFrame({"ID": ["a", "b"], "EVENT_TIME": [70.0, 75.0], "EVENT_BOOL": [1.0, float("nan")]})
try:
    Data.from_dataframe(df, "event")
    print("accepted a table with a missing event indicator")
    sys.exit(1)
except LeaspyDataInputError as e:
    print("refused with the data-input error: OK --", e)
    sys.exit(0)
except Exception as e:
    print("refused, but with", type(e).__module__ + "." + type(e).__name__, "--", e)
    sys.exit(1)

"""C12 / D14: a model created without `dimension` and without `source_dimension`, fitted on ONE feature, gets
source_dimension = int(sqrt(1)) = 1 (the "dimension == 1 -> no sources" rule runs before the features are known).
The fit works on a degenerate model (betas of shape (0, 1)), save() writes dimension 1 + source_dimension 1 + betas_mean,
and BaseModel.load refuses that file.  Same for linear / shared_speed_logistic; the joint model additionally keeps
its with-sources event model."""
import os, sys, tempfile, warnings
warnings.simplefilter("ignore")
import pandas as pd
from leaspy.io.data import Data
from leaspy.models import BaseModel, JointModel, LogisticModel

df = pd.DataFrame({"ID": list("aabbccdd"), "TIME": [62.0, 66.5, 70.0, 72.0, 75.0, 79.0, 58.0, 69.0],
                   "Y0": [0.15, 0.25, 0.40, 0.55, 0.55, 0.70, 0.05, 0.30],
                   "EVENT_TIME": [68.0] * 2 + [82.5] * 2 + [80.0] * 2 + [75.0] * 2, "EVENT_BOOL": [0, 0, 1, 1, 1, 1, 0, 0]})
tmp = tempfile.mkdtemp(dir="/var/tmp")
path = os.path.join(tmp, "model.json")
bad = 0
for model, data in ((LogisticModel("logistic"), Data.from_dataframe(df[["ID", "TIME", "Y0"]])),
                    (JointModel("joint", nb_events=1), Data.from_dataframe(df, "joint"))):
    model.fit(data, "mcmc_saem", seed=0, n_iter=3, progress_bar=False)
    print(type(model).__name__, "dimension", model.dimension, "source_dimension", model.source_dimension)
    model.save(path)
    try:
        BaseModel.load(path)
    except Exception as e:
        print(f"DEFECT: {type(model).__name__} fitted on one feature cannot be reloaded: {type(e).__name__}: {e}"); bad = 1
    os.remove(path)
os.rmdir(tmp)
sys.exit(bad)

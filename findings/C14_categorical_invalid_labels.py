"""C14: the identifier requirements (no empty text, no negative integer, text or integers only, one kind of label)
are not applied to a categorical ID column: only missing identifiers are refused there.

Exit status 1 when the defect is present.
"""
import sys
import pandas as pd
from leaspy.exceptions import LeaspyDataInputError
from leaspy.io.data import Data

bad = 0
for what, ids in (("empty text", ["a", "", "a"]), ("negative integer", [1, -2, 1]), ("float", [1.5, 2.0, 1.5]), ("text mixed with integers", ["a", 3, "a"])):
    df = pd.DataFrame({"ID": ids, "TIME": [70.0, 71.0, 72.0], "Y0": [0.1, 0.2, 0.3]})
    for dtype in ("plain", "category"):
        try:
            data = Data.from_dataframe(df.astype({"ID": "category"}) if dtype == "category" else df)
            print(f"{what:25s} {dtype:9s} ACCEPTED, individuals = {list(data.individuals)}")
            bad = 1
        except LeaspyDataInputError:
            print(f"{what:25s} {dtype:9s} refused with the data-input error: OK")
sys.exit(bad)

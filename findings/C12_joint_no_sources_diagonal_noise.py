"""C12 (side finding): a JointModel with dimension >= 2, no sources and the default noise structure for a known
dimension (gaussian-diagonal) cannot be built: the 'univariate' configuration branch (taken whenever
source_dimension == 0) appends a second observation model named 'y' (gaussian-scalar), and the variable graph is refused
with `ValueError: Can not reset the variable 'y'` at fit / load time.  (This is also why lmc.models.model_dict for
kind 'joint', dim >= 2, ns = 0 is rejected: no fit can produce such a file; with gaussian-scalar noise it works.)"""
import sys, warnings
warnings.simplefilter("ignore")
import pandas as pd
from leaspy.io.data import Data
from leaspy.models import BaseModel, JointModel

df = pd.DataFrame({"ID": list("aabbccdd"), "TIME": [62.0, 66.5, 70.0, 72.0, 75.0, 79.0, 58.0, 69.0],
                   "Y0": [0.15, 0.25, 0.40, 0.55, 0.55, 0.70, 0.05, 0.30], "Y1": [0.10, 0.20, 0.30, 0.50, 0.65, 0.70, 0.10, 0.22],
                   "EVENT_TIME": [68.0] * 2 + [82.5] * 2 + [80.0] * 2 + [75.0] * 2, "EVENT_BOOL": [0, 0, 1, 1, 1, 1, 0, 0]}
                  )
bad = 0
model = JointModel("joint", nb_events=1, dimension=2, source_dimension=0)
print("observation models:", model.observation_model_names)
try:
    model.fit(Data.from_dataframe(df, "joint"), "mcmc_saem", seed=0, n_iter=3, progress_bar=False)
except ValueError as e:
    print("DEFECT: JointModel(dimension=2, source_dimension=0).fit raised", repr(e)); bad = 1
try:
    BaseModel.load({"leaspy_version": "2.0.0", "name": "joint", "features": ["Y0", "Y1"], "dimension": 2, "source_dimension": 0,
                    "nb_events": 1, "obs_models": {"y": "gaussian-diagonal", "event": "weibull-right-censored"},
                    "parameters": {"log_g_mean": [0.5, 1.0], "log_v0_mean": [-3.0, -2.5], "tau_mean": [70.0], "tau_std": [5.0],
                                   "xi_std": [0.5], "noise_std": [0.1, 0.2], "log_rho_mean": [0.6], "n_log_nu_mean": [-1.8]}})
except ValueError as e:
    print("DEFECT: the corresponding parameter dictionary is refused by BaseModel.load with", repr(e)); bad = 1
sys.exit(bad)

"""C17: mean_posterior / mode_posterior cannot personalise a mixture model (scipy_minimize can): the prior mode of
the mixture priors of tau / xi has shape (n_individuals,) instead of (n_individuals, 1)."""
import sys, warnings
import pandas as pd
from leaspy.io.data import Data
from leaspy.models import BaseModel

warnings.filterwarnings("ignore")
model = BaseModel.load("/repo/tests/_data/model_parameters/hardcoded/mixture.json")
rows = [("a", 62.0, 0.15), ("a", 66.5, 0.25), ("b", 70.0, 0.4), ("b", 72.0, 0.5)]
df = pd.DataFrame([[i, t] + [y] * model.dimension for i, t, y in rows], columns=["ID", "TIME"] + list(model.features))
model.personalize(Data.from_dataframe(df), "scipy_minimize", use_jacobian=False, progress_bar=False)  # fine
try:
    ip = model.personalize(Data.from_dataframe(df), "mean_posterior", n_iter=4, seed=0, progress_bar=False)
    print("personalised:", ip._indices)
    sys.exit(0)
except IndexError as e:
    print(f"mean_posterior on a mixture model: IndexError: {e}")
    sys.exit(1)

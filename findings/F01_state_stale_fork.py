"""F01 (C01): a revert after an assignment made with auto-fork off restores a stale snapshot.

history: set a, b ; read c=a+b ; fork on ; set a ; fork off ; set b:=other ; revert()
-> c is served from the snapshot taken before `b` changed.
Exit status 1 when the defect is present.
"""
import sys
import torch
import leaspy.models  # noqa
from leaspy.variables.dag import VariablesDAG
from leaspy.variables.specs import DataVariable, LinkedVariable
from leaspy.variables.state import State, StateForkType
from leaspy.exceptions import LeaspyInputError

dag = VariablesDAG.from_dict({"a": DataVariable(), "b": DataVariable(), "c": LinkedVariable(lambda *, a, b: a + b)})
s = State(dag)
s["a"] = torch.tensor(1.0)
s["b"] = torch.tensor(10.0)
assert s["c"] == 11
s.auto_fork_type = StateForkType.REF
s["a"] = torch.tensor(2.0)
s.auto_fork_type = None
s["b"] = torch.tensor(100.0)
try:
    s.revert()
except LeaspyInputError:
    print("revert refused (no consistent forked state any more): OK")
    sys.exit(0)
print("a =", s["a"].item(), "b =", s["b"].item(), "c =", s["c"].item(), "(from scratch:", (s["a"] + s["b"]).item(), ")")
sys.exit(0 if s["c"] == s["a"] + s["b"] else 1)

"""C18 / D15: distance_visit_mean <= 0 with distance_visit_std > 0 passes the validation (only 'both <= 0' is refused); the visit
ages then perform a random walk with non-positive drift and the generation loop does not end (alarm after 10 s here).
Exit status 1 when the defect is present.
"""
import sys
import pandas as pd
from leaspy.models import BaseModel


def logistic(ns=1, noise="gaussian-diagonal", std=(0.1, 0.2)):
    p = {"log_g_mean": [0.5, 1.0], "log_v0_mean": [-3.0, -2.5], "tau_mean": [70.0], "tau_std": [5.0], "xi_std": [0.5],
         "noise_std": list(std) if noise == "gaussian-diagonal" else [std[0]]}
    if ns:
        p["betas_mean"] = [[0.1] * ns]
    return BaseModel.load({"leaspy_version": "2.0.0", "name": "logistic", "features": ["Y0", "Y1"], "dimension": 2,
                           "source_dimension": ns, "obs_models": {"y": noise}, "parameters": p})


DESIGN = {"visit_type": "random", "patient_number": 3, "first_visit_mean": 0.0, "first_visit_std": 0.4,
          "time_follow_up_mean": 3, "time_follow_up_std": 0.5, "distance_visit_mean": 0.5, "distance_visit_std": 0.2}


import signal


def alarm(*_):
    raise TimeoutError


signal.signal(signal.SIGALRM, alarm)
signal.alarm(10)
try:
    res = logistic().simulate(algorithm="simulate", seed=0, features=["Y0", "Y1"], visit_parameters=dict(DESIGN, distance_visit_mean=-1))
    print("completed,", len(res.data.to_dataframe()), "visits")
except Exception as e:
    if type(e).__name__ == "LeaspyAlgoInputError":
        print("design refused before anything is generated:", e)
        sys.exit(0)
    if not isinstance(e, TimeoutError):
        raise
    print("DEFECT: distance_visit_mean=-1, distance_visit_std=0.2 accepted; visit generation still running after 10 s")
    sys.exit(1)
finally:
    signal.alarm(0)
sys.exit(0)

"""C16 / D22: only the first element of a list value is type-checked: [1.0, "x"], [1.0, None], [1.0, [2.0]] are accepted
although "x" / None / nested lists are refused as values and as first elements.
Exit status 1 when the defect is present."""
import sys
from leaspy.exceptions import LeaspyIndividualParamsInputError
from leaspy.io.outputs.individual_parameters import IndividualParameters

bad = 0
for v in (["x", 1.0], [1.0, "x"], [1.0, None], [1.0, [2.0]], [1.0, True]):
    ip = IndividualParameters()
    try:
        ip.add_individual_parameters("a", {"sources": v})
        print("accepted:", v)
        bad = 1
    except LeaspyIndividualParamsInputError:
        print("refused: ", v)
sys.exit(bad)

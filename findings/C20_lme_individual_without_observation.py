"""C20: LME personalisation crashes (numpy ValueError) for the whole cohort as soon as one individual has no
observed value (all its values missing, kept by Data.from_dataframe(..., drop_full_nan=False)).
The conditional mean of the random effects given no data is the prior mean 0.
Exit status 1 when the defect is present.
"""
import sys
import pandas as pd
from leaspy.io.data import Data
from leaspy.models import LMEModel

nan = float("nan")
rows = [(f"s{i}", 60.0 + i + 2 * j, 0.3 + 0.1 * i + 0.05 * j + 0.02 * ((i * j) % 3)) for i in range(5) for j in range(3)]
model = LMEModel("lme", with_random_slope_age=False)
model.fit(pd.DataFrame(rows, columns=["ID", "TIME", "Y"]), "lme_fit")
new = pd.DataFrame([("u", 66.0, 0.5), ("u", 68.0, 0.6), ("v", 66.0, nan), ("v", 67.5, nan)], columns=["ID", "TIME", "Y"])
try:
    ip = model.personalize(Data.from_dataframe(new, drop_full_nan=False), "lme_personalize")
except ValueError as e:
    print("ValueError:", e)
    sys.exit(1)
print(ip["v"])
sys.exit(0 if abs(float(ip["v"]["random_intercept"])) < 1e-12 else 1)

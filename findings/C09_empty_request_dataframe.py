"""C09: an empty request is answered by an empty dict, but by a ValueError when a DataFrame is to be returned
(empty MultiIndex, e.g. the index of an empty selection of visits, or {} with to_dataframe=True)."""
import sys
import pandas as pd
from leaspy.io.outputs import IndividualParameters
from leaspy.models import BaseModel

model = BaseModel.load({
    "leaspy_version": "2.0.0", "name": "logistic", "features": ["Y0"], "dimension": 1, "source_dimension": 0,
    "obs_models": {"y": "gaussian-scalar"},
    "parameters": {"log_g_mean": [0.5], "log_v0_mean": [-3.0], "tau_mean": [70.0], "tau_std": [5.0],
                   "xi_std": [0.5], "noise_std": [0.1]}})
ip = IndividualParameters()
ip.add_individual_parameters("a", {"xi": 0.0, "tau": 70.0})
print("dict output:", model.estimate({}, ip), "| one individual without age:", model.estimate({"a": []}, ip, to_dataframe=True).shape)
try:
    print(model.estimate(pd.MultiIndex.from_tuples([], names=["ID", "TIME"]), ip))
except ValueError as e:
    print("DEFECT: estimate(<empty MultiIndex>) raised", repr(e))
    sys.exit(1)
sys.exit(0)

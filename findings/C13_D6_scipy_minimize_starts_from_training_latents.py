"""C13 / D6: personalize(scipy_minimize) on the object that was just fitted depends on the fit's leftovers.

After fit() the model's state keeps the training individuals' latent values.  ScipyMinimizeAlgorithm clones that
state per individual and, because xi/tau are "already set", starts every optimisation from the FIRST TRAINING
individual's values instead of the initial value it uses on the same model loaded from its saved file:
  logistic: same parameters, same data, same seed -> different individual parameters;
  joint:    ValueError (the 3 training rows are put into a 1-individual table).
Exit status 1 when the defect is present, 0 otherwise.
"""
import contextlib, io, os, sys, warnings

import pandas as pd

from leaspy.io.data import Data
from leaspy.models import BaseModel, JointModel, LogisticModel

warnings.filterwarnings("ignore")
cols = ["ID", "TIME", "Y0", "Y1", "EVENT_TIME", "EVENT_BOOL"]
train = pd.DataFrame([("a", 62.0, 0.15, 0.10, 68.0, 0), ("a", 66.5, 0.25, 0.20, 68.0, 0), ("b", 70.0, 0.40, 0.30, 82.5, 1),
                      ("b", 72.0, 0.45, 0.50, 82.5, 1), ("b", 80.0, 0.60, 0.55, 82.5, 1), ("c", 75.0, 0.55, 0.65, 78.0, 1),
                      ("c", 77.0, 0.60, 0.70, 78.0, 1)], columns=cols)
test = pd.DataFrame([("d", 58.0, 0.05, 0.08, 75.0, 0), ("d", 61.0, 0.12, 0.18, 75.0, 0), ("d", 69.0, 0.30, 0.22, 75.0, 0),
                     ("e", 81.0, 0.70, 0.60, 84.0, 1), ("e", 83.5, 0.85, 0.75, 84.0, 1)], columns=cols)
bad = False
for kind in ("logistic", "joint"):
    if kind == "joint":
        model = JointModel(name="joint", dimension=2, source_dimension=1, nb_events=1)
        d_train, d_test = Data.from_dataframe(train, "joint"), Data.from_dataframe(test, "joint")
    else:
        model = LogisticModel(name="logistic", dimension=2, source_dimension=1)
        d_train, d_test = Data.from_dataframe(train[cols[:4]]), Data.from_dataframe(test[cols[:4]])
    with contextlib.redirect_stdout(io.StringIO()):
        model.fit(d_train, "mcmc_saem", seed=0, n_iter=20, progress_bar=False)
        model.save("/var/tmp/C13_D6_model.json")
        reloaded = BaseModel.load("/var/tmp/C13_D6_model.json")
        ref = reloaded.personalize(d_test, "scipy_minimize", seed=0, progress_bar=False)._individual_parameters
        try:
            got = model.personalize(d_test, "scipy_minimize", seed=0, progress_bar=False)._individual_parameters
        except Exception as e:
            got = f"{type(e).__name__}: {e}"
    # logistic: the reloaded parameters are bit-identical, so the answers must be; joint (float64 parameters are
    # re-read as float32): only demand that the call works
    ok = isinstance(got, dict) and (kind == "joint" or got == ref)
    print(f"{kind}: fitted object  -> {got}\n{kind}: reloaded file  -> {ref}\n{kind}: {'ok' if ok else 'DEFECT'}")
    bad |= not ok
os.remove("/var/tmp/C13_D6_model.json")
sys.exit(1 if bad else 0)

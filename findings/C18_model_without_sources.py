"""C18: a logistic model without sources (source_dimension=0, e.g. every univariate model) cannot be simulated:
RuntimeError 'stack expects a non-empty TensorList' while the individual parameters are sampled.
Exit status 1 when the defect is present.
"""
import sys
import pandas as pd
from leaspy.models import BaseModel


def logistic(ns=1, noise="gaussian-diagonal", std=(0.1, 0.2)):
    p = {"log_g_mean": [0.5, 1.0], "log_v0_mean": [-3.0, -2.5], "tau_mean": [70.0], "tau_std": [5.0], "xi_std": [0.5],
         "noise_std": list(std) if noise == "gaussian-diagonal" else [std[0]]}
    if ns:
        p["betas_mean"] = [[0.1] * ns]
    return BaseModel.load({"leaspy_version": "2.0.0", "name": "logistic", "features": ["Y0", "Y1"], "dimension": 2,
                           "source_dimension": ns, "obs_models": {"y": noise}, "parameters": p})


DESIGN = {"visit_type": "random", "patient_number": 3, "first_visit_mean": 0.0, "first_visit_std": 0.4,
          "time_follow_up_mean": 3, "time_follow_up_std": 0.5, "distance_visit_mean": 0.5, "distance_visit_std": 0.2}


try:
    res = logistic(ns=0).simulate(algorithm="simulate", seed=0, features=["Y0", "Y1"], visit_parameters=dict(DESIGN))
    print("completed,", len(res.data.to_dataframe()), "visits")
except RuntimeError as e:
    print("DEFECT: model without sources: RuntimeError:", e)
    sys.exit(1)
sys.exit(0)

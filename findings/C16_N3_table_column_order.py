"""C16 (new, arguable): from_dataframe collects the components of a vector parameter in COLUMN order and ignores
their `_i` suffix; a hand-built (or alphabetically sorted: sources_0, sources_1, sources_10, sources_2 ...) table
silently comes back with permuted components.  Exit status 1 when the defect is present."""
import sys
import pandas as pd
from leaspy.io.outputs.individual_parameters import IndividualParameters

df = pd.DataFrame({"sources_1": [0.2, 0.4], "sources_0": [0.1, 0.3], "tau": [70.0, 71.0]}, index=["a", "b"])
try:
    out = IndividualParameters.from_dataframe(df).to_dataframe()
except Exception as e:  # refusing such a table would be fine
    print("refused:", type(e).__name__, e)
    sys.exit(0)
print(out)
sys.exit(0 if out.loc["a", "sources_0"] == 0.1 and out.loc["b", "sources_1"] == 0.4 else 1)

"""C09: a single (scalar) time-point per individual is documented as accepted by estimate(), and works for the
dict output, but crashes when the DataFrame output is requested."""
import sys
from leaspy.io.outputs import IndividualParameters
from leaspy.models import BaseModel

model = BaseModel.load({
    "leaspy_version": "2.0.0", "name": "logistic", "features": ["Y0"], "dimension": 1, "source_dimension": 0,
    "obs_models": {"y": "gaussian-scalar"},
    "parameters": {"log_g_mean": [0.5], "log_v0_mean": [-3.0], "tau_mean": [70.0], "tau_std": [5.0],
                   "xi_std": [0.5], "noise_std": [0.1]}})
ip = IndividualParameters()
ip.add_individual_parameters("a", {"xi": 0.0, "tau": 70.0})
print("dict output:", model.estimate({"a": 70.0}, ip))  # {'a': array([[0.3775]])}
try:
    print(model.estimate({"a": 70.0}, ip, to_dataframe=True))
except TypeError as e:
    print("DEFECT: estimate({'a': 70.0}, to_dataframe=True) raised", repr(e))
    sys.exit(1)
sys.exit(0)

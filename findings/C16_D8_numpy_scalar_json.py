"""C16 / D8: numpy float32 / int32 / int64 scalars are accepted by add_individual_parameters (explicitly listed as
valid types) but the container can then not be saved as JSON: TypeError from json.dump.
Exit status 1 when the defect is present."""
import os, sys, tempfile
import numpy as np
from leaspy.io.outputs.individual_parameters import IndividualParameters

bad = 0
d = tempfile.mkdtemp(dir="/var/tmp")
for v in (np.float32(0.1), np.int64(70), np.int32(70), [np.float32(0.1), np.float32(-0.3)]):
    ip = IndividualParameters()
    ip.add_individual_parameters("a", {"p": v})
    path = os.path.join(d, "ip.json")
    try:
        ip.save(path)
        back = IndividualParameters.load(path)
        assert np.allclose(np.ravel(back["a"]["p"]), np.ravel(v))
    except TypeError as e:
        print(type(v).__name__, "->", e)
        bad = 1
    if os.path.exists(path):
        os.remove(path)
os.rmdir(d)
sys.exit(bad)

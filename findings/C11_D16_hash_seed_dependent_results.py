"""C11 / D16: a seeded run is not reproducible from one interpreter start to the next.
NamedVariables sums the per-variable regularity terms `nll_regul_<var>_ind` in the iteration order of a *set*
(`_latent_ind_vars`, variables/specs.py), i.e. in an order that depends on PYTHONHASHSEED (random by default).
With 3 individual variables (xi, tau, sources) the float32 sum changes in the last bit, scipy_minimize's objective
changes, and the personalised parameters differ between interpreters (so do fit_metrics['nll_regul_ind_sum'/'nll_tot'])."""
import os, subprocess, sys

CHILD = r'''
import warnings; warnings.simplefilter("ignore")
import contextlib, io, pandas as pd
from leaspy.models import BaseModel
model = BaseModel.load({"leaspy_version": "2.0.0", "name": "logistic", "features": ["Y0", "Y1"], "dimension": 2,
    "source_dimension": 1, "obs_models": {"y": "gaussian-diagonal"},
    "parameters": {"log_g_mean": [0.5, 1.0], "log_v0_mean": [-3.0, -2.5], "betas_mean": [[0.1]], "tau_mean": [70.0],
                   "tau_std": [5.0], "xi_std": [0.5], "noise_std": [0.1, 0.2]}})
df = pd.DataFrame({"ID": list("aabbccdd"), "TIME": [62.0, 66.5, 70.0, 72.0, 75.0, 79.0, 58.0, 69.0],
                   "Y0": [0.15, 0.25, 0.40, 0.55, 0.55, 0.70, 0.05, 0.30], "Y1": [0.10, 0.20, 0.30, 0.50, 0.65, 0.70, 0.10, 0.22]})
with contextlib.redirect_stdout(io.StringIO()):
    ip = model.personalize(df, "scipy_minimize", seed=0, progress_bar=False)
print("RESULT", [float(v).hex() for v in ip.to_dataframe().to_numpy().ravel()])
'''
results = {}
for hashseed in range(6):
    out = subprocess.run([sys.executable, "-c", CHILD], env=dict(os.environ, PYTHONHASHSEED=str(hashseed)),
                         capture_output=True, text=True).stdout
    results[hashseed] = next(line for line in out.splitlines() if line.startswith("RESULT"))
distinct = sorted(set(results.values()))
for hashseed, r in results.items():
    print(f"PYTHONHASHSEED={hashseed}: result #{distinct.index(r)}")
if len(distinct) > 1:
    print(f"DEFECT: {len(distinct)} different results for the same seeded personalize(scipy_minimize)")
    sys.exit(1)
sys.exit(0)

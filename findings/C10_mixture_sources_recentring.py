"""C10: the per-iteration re-centring step of the mixture model is not a gauge change.

LogisticMultivariateMixtureModel.compute_sufficient_statistics (run at every fit iteration) subtracts the overall
mean of ``sources`` (one scalar over individuals AND source dimensions) without any compensation, so trajectories
and the attachment term of the current state change.  Exit 1 when the defect is present, 0 otherwise."""
import sys, warnings
warnings.filterwarnings("ignore")
import pandas as pd, torch
from leaspy.io.data import Data, Dataset
from leaspy.models import BaseModel

P = {"tau_mean": [70.0, 76.0], "tau_std": [5.0, 6.0], "xi_mean": [0.1, -0.1], "xi_std": [0.5, 0.5], "probs": [0.6, 0.4],
     "noise_std": [0.1, 0.2], "log_g_mean": [0.5, 1.0], "log_v0_mean": [-3.0, -2.5], "betas_mean": [[0.1]],
     "sources_mean": [[-0.5, 0.4]]}
model = BaseModel.load({"leaspy_version": "2.0.0", "name": "mixture_logistic", "features": ["Y0", "Y1"], "dimension": 2,
                        "source_dimension": 1, "n_clusters": 2, "obs_models": {"y": "gaussian-diagonal"}, "parameters": P})
df = pd.DataFrame({"ID": ["a", "a", "b", "b"], "TIME": [62.0, 66.5, 70.0, 72.0],
                   "Y0": [0.15, 0.25, 0.40, 0.45], "Y1": [0.10, 0.20, 0.30, 0.50]})
state = model.state.clone(disable_auto_fork=True)
model.put_data_variables(state, Dataset(Data.from_dataframe(df)))
state["xi"] = torch.zeros(2, 1)                      # already centred: the log-acceleration part is a no-op
state["tau"] = torch.tensor([[66.0], [72.5]])
state["sources"] = torch.tensor([[1.5], [3.0]])
before, nll_before = state["model"].clone(), state["nll_attach"].clone()
model.compute_sufficient_statistics(state)
delta = (state["model"] - before).abs().max().item()
print(f"max |trajectory change| = {delta:.4f}; nll_attach {nll_before.item():.3f} -> {state['nll_attach'].item():.3f}; "
      f"sources -> {state['sources'].reshape(-1).tolist()}")
sys.exit(1 if delta > 1e-4 else 0)

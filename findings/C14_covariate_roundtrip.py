"""C14: a covariate dataset converted back to a table cannot be re-ingested (covariate columns are named by 1-tuples).

Exit status 1 when the defect is present.
"""
import sys
import pandas as pd
from leaspy.io.data import Data, Dataset

df = pd.DataFrame({"ID": ["a", "a", "b"], "TIME": [70.0, 71.0, 60.0], "Y0": [0.1, 0.2, 0.3], "COV": [1, 1, 0]})
kws = {"covariate_names": ["COV"]}
ds = Dataset(Data.from_dataframe(df, "covariate", factory_kws=kws))
back = ds.to_pandas()
print("columns of Dataset.to_pandas():", list(back.columns))
try:
    ds2 = Dataset(Data.from_dataframe(back, "covariate", factory_kws=kws))
except Exception as e:
    print("re-ingestion fails:", type(e).__name__, e)
    sys.exit(1)
sys.exit(0 if ds2.covariates.tolist() == [[1], [0]] and "COV" in back.columns else 1)
